/-
  C07 — Sorted sets order members by (score, key).

  Two layers, both proved for every input:

  * the node list (`Nuts.Model.ZSetA`, what the database model uses): `Put` / `Remove` keep it strictly
    ordered by (score, key) with distinct keys; the head is the minimum (`Lemmas/ZSetOrder.lean`);
  * the skiplist itself (`Nuts.Model.Skiplist`: towers, one span per level, every search loop of
    ds/zset/sortedset.go, the span arithmetic of `insertNode` and `deleteNode`, level growth and shrinking):
    for every sequence of `Put`, `Remove`, `PopMin`, `PopMax`, every level layout and every level the random
    generator may draw (1 … 32), the members of the skiplist in level-0 order are exactly the node list after
    the same operations, each operation returns what the list operation returns, and every stored span of every
    tower is the distance to the next tower that has that level — the fact the rank queries rest on
    (`C07_skiplist_refines_sorted_list`; `Lemmas/Skiplist*.lean`).

  The model of the skiplist is tied to the code by suite `zset-ds`: after every operation the levels, spans,
  forward and backward pointers, tail and length of the real structure are compared with the model's.
-/
import Nuts.Model.ZSetA
import NutsProofs.Lemmas.ZSetOrder
import NutsProofs.Lemmas.SkiplistRefine
namespace NutsProofs.C07
open Nuts Nuts.Model Nuts.Model.ZSetA NutsProofs NutsProofs.ZOrd

/-! ### the node list -/

/-- **Put** keeps the node list strictly ordered by (score, key) -/
theorem C07_put_sorted (s : St) (k : Bytes) (sc : Int) (v : Bytes) (h : Sorted s) : Sorted (put s k sc v) :=
  put_sorted s k sc v h

theorem C07_remove_sorted (s : St) (k : Bytes) (h : Sorted s) : Sorted (remove s k) := remove_sorted s k h

/-- inserting a node whose key is new keeps the list strictly ordered -/
theorem C07_insert_sorted (s : St) (n : Node) (h : Sorted s) (hk : ∀ x ∈ s, x.key ≠ n.key) :
    Sorted (insertSorted s n) := insertSorted_sorted s n h hk

/-- in a sorted list the minimum is the head -/
theorem C07_head_is_min (x : Node) (xs : St) (h : Sorted (x :: xs)) : ∀ y ∈ xs, Lt x y := head_is_min x xs h

/-- ties on the score are ordered by key: `a` before `b` at equal scores -/
theorem C07_witness_ties : (put (put [] [98] 1 []) [97] 1 []).map (·.key) = [[97], [98]] := by decide

/-! ### the skiplist -/

open Nuts.Model.Skiplist NutsProofs.SkipL

/-- the mutating operations of ds/zset that the database issues one member at a time; `lvl` is the level
`randomLevel()` drew for the node a `Put` creates (ignored when it creates none) -/
inductive ZOp where
  | put (k : Bytes) (score : Int) (v : Bytes) (lvl : Nat)
  | rem (k : Bytes)
  | popMin
  | popMax

def stepSL (s : SL) : ZOp → SL
  | .put k sc v lvl => Skiplist.put s k sc v lvl
  | .rem k => (Skiplist.remove s k).1
  | .popMin => (Skiplist.popMin s).1
  | .popMax => (Skiplist.popMax s).1

def stepZ (z : St) : ZOp → St
  | .put k sc v _ => ZSetA.put z k sc v
  | .rem k => ZSetA.remove z k
  | .popMin => (ZSetA.popMin z).2
  | .popMax => (ZSetA.popMax z).2

/-- what an operation returns -/
def outSL (s : SL) : ZOp → Option Node
  | .put _ _ _ _ => none
  | .rem k => (Skiplist.remove s k).2
  | .popMin => (Skiplist.popMin s).2
  | .popMax => (Skiplist.popMax s).2

def outZ (z : St) : ZOp → Option Node
  | .put _ _ _ _ => none
  | .rem k => ZSetA.find? z k
  | .popMin => (ZSetA.popMin z).1
  | .popMax => (ZSetA.popMax z).1

/-- `randomLevel()` returns a value between 1 and `SkipListMaxLevel` -/
def LevelOk : ZOp → Prop
  | .put _ _ _ lvl => 1 ≤ lvl ∧ lvl ≤ maxLevel
  | _ => True

theorem step_refines (s : SL) (h : OInv s) (op : ZOp) (hl : LevelOk op) :
    OInv (stepSL s op) ∧ nodes (stepSL s op) = stepZ (nodes s) op ∧ outSL s op = outZ (nodes s) op := by
  cases op with
  | put k sc v lvl =>
    obtain ⟨a, b⟩ := put_refines h k sc v lvl hl.1 hl.2
    exact ⟨a, b, rfl⟩
  | rem k => exact remove_refines h k
  | popMin => exact popMin_refines h
  | popMax => exact popMax_refines h

/-- **C07, the skiplist.** For every sequence of `Put`, `Remove`, `PopMin`, `PopMax` from the empty sorted set,
whatever levels the random generator draws: the members of the skiplist in level-0 order are the node list
after the same operations (ordered by score then key, keys distinct), the structure is well-formed — header of
32 levels, `1 ≤ level ≤ 32`, `length` = number of members, every member has between 1 and `level` levels — and
**every stored span of every tower is the distance to the next tower that has that level** (to the end of the
list when there is none). -/
theorem C07_skiplist_refines_sorted_list (ops : List ZOp) (hl : ∀ op ∈ ops, LevelOk op) :
    nodes (ops.foldl stepSL Skiplist.empty) = ops.foldl stepZ [] ∧
    Sorted (nodes (ops.foldl stepSL Skiplist.empty)) ∧
    ((nodes (ops.foldl stepSL Skiplist.empty)).map (·.key)).Nodup ∧
    Inv (ops.foldl stepSL Skiplist.empty) := by
  suffices H : ∀ (ops : List ZOp) (s : SL) (z : St), OInv s → nodes s = z → (∀ op ∈ ops, LevelOk op) →
      OInv (ops.foldl stepSL s) ∧ nodes (ops.foldl stepSL s) = ops.foldl stepZ z by
    obtain ⟨a, b⟩ := H ops Skiplist.empty [] oinv_empty rfl hl
    exact ⟨b, a.sorted, a.keys, a.inv⟩
  intro ops
  induction ops with
  | nil => intro s z h e _; exact ⟨h, e⟩
  | cons op rest ih =>
    intro s z h e hl
    obtain ⟨a, b, _⟩ := step_refines s h op (hl op (List.mem_cons_self ..))
    simp only [List.foldl_cons]
    exact ih _ _ a (by rw [b, e]) (fun o ho => hl o (List.mem_cons_of_mem _ ho))

/-- … and along the way every operation returns what the list operation returns (the removed node, the
popped minimum / maximum, `nil` when there is none) -/
theorem C07_skiplist_results (ops : List ZOp) (hl : ∀ op ∈ ops, LevelOk op) (op : ZOp) (ho : LevelOk op) :
    outSL (ops.foldl stepSL Skiplist.empty) op = outZ (ops.foldl stepZ []) op := by
  suffices H : ∀ (ops : List ZOp) (s : SL), OInv s → (∀ op ∈ ops, LevelOk op) → OInv (ops.foldl stepSL s) by
    have hinv := H ops Skiplist.empty oinv_empty hl
    rw [← (C07_skiplist_refines_sorted_list ops hl).1]
    exact (step_refines _ hinv op ho).2.2
  intro ops
  induction ops with
  | nil => intro s h _; exact h
  | cons o rest ih =>
    intro s h hl
    simp only [List.foldl_cons]
    exact ih _ (step_refines s h o (hl o (List.mem_cons_self ..))).1 (fun o' ho' => hl o' (List.mem_cons_of_mem _ ho'))

/-- the history of the witness below -/
def wOps : List ZOp := [.put [98] 1 [1] 1, .put [97] 1 [2] 3, .put [99] 0 [3] 2, .put [98] 5 [4] 2, .rem [97], .popMin]

/-- non-vacuity: a history with towers of 1, 3 and 2 levels, a tie on the score, a re-scored member, a removal
and a pop; the members and the spans the model computes for it (header first) -/
theorem C07_witness_skiplist :
    (∀ op ∈ wOps, LevelOk op) ∧
    (nodes (wOps.foldl stepSL Skiplist.empty)).map (·.key) = [[98]] ∧
    (nodes ((wOps.take 4).foldl stepSL Skiplist.empty)).map (·.key) = [[99], [97], [98]] ∧
    (((wOps.take 4).foldl stepSL Skiplist.empty).all.map (·.spans.take 3)) = [[1, 1, 2], [1, 1], [1, 1, 1], [0, 0]] := by
  refine ⟨?_, by decide +kernel, by decide +kernel, by decide +kernel⟩
  intro op hop
  simp only [wOps, List.mem_cons, List.mem_nil_iff, or_false] at hop
  rcases hop with rfl | rfl | rfl | rfl | rfl | rfl <;> simp [LevelOk, maxLevel]

end NutsProofs.C07
