/-
  C11 — With SyncEnable, committed transactions survive power loss.
  What can be proved here is the write/sync discipline of `Tx.Commit` (regenerated structure facts)
  and, at record level, that recovery from any *durable prefix* of the log is all-or-nothing per
  transaction (C10). The behaviour of fsync/msync themselves is assumed (OS).
-/
import NutsProofs.Pins.Commit
import NutsProofs.Props.C10
namespace NutsProofs.C11
open NutsProofs

/-- every record write of `Commit` is followed, before anything else happens, by a sync of the same
file whenever `SyncEnable` is set: at most the record being written is not yet durable. -/
theorem C11_sync_follows_every_write :
    (((NutsGen.F.commitLoop.dropWhile (·.1 != "write")).map (·.1)).take 4) = ["write", "return", "sync", "return"] ∧
    Facts.items "sync" = [("sync", "tx.db.opt.SyncEnable", "tx.db.ActiveFile.rwManager.Sync()")] :=
  ⟨Facts.commit_sync_follows_write.2.2.1, Facts.commit_sync_follows_write.2.1⟩

/-- the commit marker is on the last record only, so a durable prefix of a transaction's records that
lacks the last one is ignored by recovery (C10_uncommitted_suffix_invisible) -/
theorem C11_marker_last_only :
    Facts.items "status" = [("status", "i == lastIndex", "entry.Meta.status = Committed")] :=
  Facts.commit_marker_last_only.1

/-- after a power loss the durable log is a prefix of the written log; dropping the not-yet-synced
suffix of an unfinished transaction changes nothing that recovery sees -/
theorem C11_durable_prefix_all_or_nothing (s : Nuts.Model.DB.State) (log extra : List C10.LogRec)
    (hst : ∀ x ∈ extra, x.1.status = 0) (hfresh : ∀ x ∈ extra, ∀ y ∈ log, y.1.txid ≠ x.1.txid) :
    Nuts.Model.DB.replay s (log ++ extra) (Nuts.Model.DB.committedIds (log ++ extra)) =
    Nuts.Model.DB.replay s log (Nuts.Model.DB.committedIds log) :=
  (C10.C10_uncommitted_suffix_invisible s log extra hst hfresh).2

end NutsProofs.C11
