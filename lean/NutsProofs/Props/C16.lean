/-
  C16 — A crash during Merge loses or changes nothing.
  Record-level core for key-addressed records: replaying a KV record a second time (the rewritten
  copy next to the not yet removed original) does not change the index content for its key.
-/
import Nuts.Model.Tx
import NutsProofs.Lemmas.Assoc
import NutsProofs.Lemmas.MergeReopen
import NutsProofs.Lemmas.MergeCrash
import NutsProofs.Pins.Merge
namespace NutsProofs.C16
open Nuts Nuts.Model Nuts.Model.DB NutsProofs

/-- upserting the same key twice keeps only the second value: a rewritten copy supersedes the original -/
theorem upsert_upsert {α} (m : Assoc α) (k : Bytes) (v w : α) : upsert (upsert m k v) k w = upsert m k w := by
  induction m with
  | nil => simp [upsert, bcmp_refl]
  | cons p rest ih =>
    obtain ⟨k0, v0⟩ := p
    simp only [upsert]
    cases h : bcmp k k0 with
    | lt => simp [upsert, bcmp_refl]
    | eq => simp [upsert, bcmp_refl]
    | gt => simp [upsert, h, ih]

/-- **C16 (KV, idempotence).** Applying the rewritten copy of a KV record after the original leaves
the same value for the key as the copy alone: a crash that leaves both the old segment and the new
file on disk recovers the same key/value content. -/
theorem applyKV_twice_value (s : State) (r : Rec) (f1 p1 f2 p2 : Nat) :
    ((aget? (applyKV (applyKV s r f1 p1) r f2 p2).kv r.bucket).bind (aget? · r.key)).map (·.r) =
    ((aget? (applyKV s r f2 p2).kv r.bucket).bind (aget? · r.key)).map (·.r) := by
  simp [applyKV, aget_aput_self, aget_upsert_self]

/-- set insertion is idempotent: replaying an SAdd record twice gives the same set -/
theorem sadd_idem (m : SetDS.St) (k : Bytes) (x : Bytes) :
    SetDS.get? (SetDS.sadd (SetDS.sadd m k [x]) k [x]) k = SetDS.get? (SetDS.sadd m k [x]) k := by
  have hself : ∀ (s : SetDS.St) (v : List Bytes), SetDS.get? (SetDS.put s k v) k = some v := by
    intro s v
    induction s with
    | nil => simp [SetDS.put, SetDS.get?]
    | cons p rest ih => obtain ⟨k', v'⟩ := p; by_cases h : k' = k <;> simp [SetDS.put, SetDS.get?, h, ih]
  simp only [SetDS.sadd, hself, Option.getD_some, List.foldl_cons, List.foldl_nil]
  congr 1
  unfold SetDS.insert
  split
  · rename_i h; simp [h]
  · simp

/-- Witness for lists (finding D-MERGE): a push replayed twice is NOT idempotent. -/
theorem C16_witness_push_not_idempotent :
    (ListDS.rpush (ListDS.rpush [] [107] [[1]]).1 [107] [[1]]).1 ≠ (ListDS.rpush [] [107] [[1]]).1 := by decide

/-! ### a crash between two files of Merge, key/value data

`Merge` works through the data files in ascending order: for each, the rewrite transaction and then the removal
of the file. `merge.go now s (fids.take k) txids` is the state after the first `k` files. The loop invariant
(`MergeKV.go_spec`) holds for every prefix of the file list, and a state with the invariant reopens to the same
live contents (`MergeKV.reads_after_reopen`). -/

open NutsProofs.Reopen NutsProofs.KVRefine NutsProofs.Hints NutsProofs.MergeKV in
/-- **C16 (key/value data, crash between two files of Merge, key+value mode, every history).** After any
history of key/value transactions and reopens (records fitting the segment size in force), Merge starts at
clock value `now` and the process dies after it has completely handled the first `k` data files — any `k`,
also all of them — i.e. after a removal and before the next rewrite. Reopening in key+value mode succeeds, and
`Get`, `GetAll`, `RangeScan`, and `PrefixScan` / `PrefixSearchScan` without offset and limit return at every
time `t ≥ now` what they returned before Merge started. Crash points *inside* the handling of one file (while
the rewrite transaction is being written; after it committed and before the old file is removed) are not
covered by this theorem: the suite `db-mcrash` visits them (open finding D-MERGE-ZSET-STALE is of that kind,
for sorted sets). -/
theorem C16_crash_between_files_of_merge (opt0 : Opts) (ops : List Op) (hok : OpsOk (openDB opt0 []).1 ops)
    (hrec : OpsRecOk ops)
    (hsz : ∀ x ∈ allRecs (ops.foldl stepOp (openDB opt0 []).1).files, ¬ x.1.size > (ops.foldl stepOp (openDB opt0 []).1).opt.seg)
    (hm : (ops.foldl stepOp (openDB opt0 []).1).opt.mode = 0)
    (now : Nat) (txids : List Nat) (k : Nat)
    (hl : (merge.go now (ops.foldl stepOp (openDB opt0 []).1)
            (((ops.foldl stepOp (openDB opt0 []).1).files.map (·.fid)).take k) txids).1.activeUnlinked = false)
    (opt : Opts) (hmo : opt.mode = 0) (t : Nat) (hle : now ≤ t) (ht : t < 2 ^ 64) (b : Bytes) :
    let s := ops.foldl stepOp (openDB opt0 []).1
    let sk := (merge.go now s ((s.files.map (·.fid)).take k) txids).1
    let s2 := (openDB opt sk.files).1
    (openDB opt sk.files).2 = .ok () ∧
    (∀ key, (DB.get s2 b key t).map (Option.map (·.value)) = (DB.get s b key t).map (Option.map (·.value))) ∧
    ((getAll s2 b t).map pairsOf = (getAll s b t).map pairsOf) ∧
    (∀ st en, (rangeScan s2 b st en t).map pairsOf = (rangeScan s b st en t).map pairsOf) ∧
    (∀ pre mt, (prefixScan s2 b pre 0 (-1) t mt).map pairsOf = (prefixScan s b pre 0 (-1) t mt).map pairsOf) := by
  intro s sk s2
  have hinv : LogInv s := logInv_ops ops _ (logInv_init opt0) hok
  have hpk : Packed s := packed_ops ops _ (logInv_init opt0) (packed_init opt0) hok
  have hlog : (allRecs s.files).map (·.1) = logOf ops := by
    have h0 : (allRecs (openDB opt0 []).1.files).map (·.1) = [] := by simp [openDB, fileEnsure, allRecs]
    have := log_of_ops ops _ (logInv_init opt0) hok
    rw [h0, List.nil_append] at this
    exact this
  have hL : ∀ x ∈ allRecs s.files, RecOk x.1 := by
    intro x hx
    apply logOf_recOk ops hrec
    rw [← hlog]; exact List.mem_map.mpr ⟨x, hx, rfl⟩
  have hmk : MarkedLog (allRecs s.files) := markedLog_ops ops _ (logInv_init opt0) (packed_init opt0) (markedLog_init opt0) hok
  have hminv := minv_of_logInv s now hinv hpk hL hsz hmk
  -- the loop invariant, for the prefix of the file list
  have hasc : ((s.files.map (·.fid)).take k).Pairwise (· < ·) := List.Pairwise.sublist (List.take_sublist _ _) hpk.fids
  have hcov : ∀ g ∈ s.files, g.fid ∈ (s.files.map (·.fid)).take k ∨ ∀ x ∈ (s.files.map (·.fid)).take k, x < g.fid := by
    intro g hg
    have hgm : g.fid ∈ s.files.map (·.fid) := List.mem_map.mpr ⟨g, hg, rfl⟩
    rw [← List.take_append_drop k (s.files.map (·.fid))] at hgm
    rcases List.mem_append.mp hgm with h1 | h1
    · exact Or.inl h1
    · right
      intro x hx
      have hsplit := hpk.fids
      rw [← List.take_append_drop k (s.files.map (·.fid)), List.pairwise_append] at hsplit
      exact hsplit.2.2 x hx g.fid h1
  have hle' : ∀ x ∈ (s.files.map (·.fid)).take k, x ≤ s.activeFid := by
    intro x hx
    obtain ⟨g, hg, rfl⟩ := List.mem_map.mp (List.mem_of_mem_take hx)
    obtain ⟨pre0, a0, hf0, ha0, hpre0⟩ := hinv.shape.split
    rw [hf0] at hg
    rcases List.mem_append.mp hg with hg | hg
    · have := hpre0 g hg; omega
    · simp at hg; subst hg; omega
  obtain ⟨_, hminvk, hvis, _, hopt⟩ := go_spec now _ s txids hminv hasc hcov hle' hl
  have hmk1 : sk.opt.mode = 0 := by show (merge.go now s _ txids).1.opt.mode = 0; rw [hopt]; exact hm
  obtain ⟨a1, a2, a3, a4⟩ := reads_of_vis_minv s sk now hminv hminvk hm hmk1 hvis t ht b
  obtain ⟨hok2, b1, b2, b3, b4⟩ := reads_after_reopen sk now hminvk hmk1 opt hmo t hle ht b
  exact ⟨hok2, fun key => by rw [b1 key, a1 key], by rw [b2, a2], fun st en => by rw [b3 st en, a3 st en],
    fun pre mt => by rw [b4 pre mt, a4 pre mt]⟩

open NutsProofs.Reopen NutsProofs.KVRefine NutsProofs.Hints NutsProofs.MergeKV in
/-- **C16 (key/value data, crash inside the handling of one file, key+value mode, every history).** Merge has
handled the first `k` files and works on a file `f` of what is left; `recs` are the records it selects from `f`
(`mergeSelect`), `tid` the id of its rewrite transaction. If the process dies
 * while the rewrite transaction is being written — `j` of its records, any number short of the last, are in the
   new file (and the id is not one already in the files), or
 * after the rewrite transaction has committed and before `f` is removed,
then reopening in key+value mode succeeds and the unpaged reads at every `t ≥ now` are those before Merge
started. With `C16_crash_between_files_of_merge` this covers every record-boundary crash point of Merge on
key/value data; torn records remain outside (finding D-TORN-CRC). -/
theorem C16_crash_inside_file_of_merge (opt0 : Opts) (ops : List Op) (hok : OpsOk (openDB opt0 []).1 ops)
    (hrec : OpsRecOk ops)
    (hsz : ∀ x ∈ allRecs (ops.foldl stepOp (openDB opt0 []).1).files, ¬ x.1.size > (ops.foldl stepOp (openDB opt0 []).1).opt.seg)
    (hm : (ops.foldl stepOp (openDB opt0 []).1).opt.mode = 0)
    (now : Nat) (txids : List Nat) (k : Nat)
    (hl : (merge.go now (ops.foldl stepOp (openDB opt0 []).1)
            (((ops.foldl stepOp (openDB opt0 []).1).files.map (·.fid)).take k) txids).1.activeUnlinked = false)
    (f : File)
    (hf : f ∈ (merge.go now (ops.foldl stepOp (openDB opt0 []).1)
            (((ops.foldl stepOp (openDB opt0 []).1).files.map (·.fid)).take k) txids).1.files)
    (tid : Nat) (opt : Opts) (hmo : opt.mode = 0) (t : Nat) (hle : now ≤ t) (ht : t < 2 ^ 64) (b : Bytes) :
    let s := ops.foldl stepOp (openDB opt0 []).1
    let sk := (merge.go now s ((s.files.map (·.fid)).take k) txids).1
    let recs := (f.recs.filter (isSel sk f now)).map (·.2)
    -- while the rewrite transaction is being written
    (∀ j, (∀ x ∈ allRecs sk.files, x.1.txid ≠ tid) →
      let s2 := (openDB opt (crashAfter (rotate sk) (retag tid recs) j).files).1
      (openDB opt (crashAfter (rotate sk) (retag tid recs) j).files).2 = .ok () ∧
      (∀ key, (DB.get s2 b key t).map (Option.map (·.value)) = (DB.get s b key t).map (Option.map (·.value))) ∧
      ((getAll s2 b t).map pairsOf = (getAll s b t).map pairsOf) ∧
      (∀ st en, (rangeScan s2 b st en t).map pairsOf = (rangeScan s b st en t).map pairsOf) ∧
      (∀ pre mt, (prefixScan s2 b pre 0 (-1) t mt).map pairsOf = (prefixScan s b pre 0 (-1) t mt).map pairsOf)) ∧
    -- after it committed, before the file is removed
    (recs ≠ [] →
      let s2 := (openDB opt (rewrite sk recs tid).1.files).1
      (openDB opt (rewrite sk recs tid).1.files).2 = .ok () ∧
      (∀ key, (DB.get s2 b key t).map (Option.map (·.value)) = (DB.get s b key t).map (Option.map (·.value))) ∧
      ((getAll s2 b t).map pairsOf = (getAll s b t).map pairsOf) ∧
      (∀ st en, (rangeScan s2 b st en t).map pairsOf = (rangeScan s b st en t).map pairsOf) ∧
      (∀ pre mt, (prefixScan s2 b pre 0 (-1) t mt).map pairsOf = (prefixScan s b pre 0 (-1) t mt).map pairsOf)) := by
  intro s sk recs
  have hinv : LogInv s := logInv_ops ops _ (logInv_init opt0) hok
  have hpk : Packed s := packed_ops ops _ (logInv_init opt0) (packed_init opt0) hok
  have hlog : (allRecs s.files).map (·.1) = logOf ops := by
    have h0 : (allRecs (openDB opt0 []).1.files).map (·.1) = [] := by simp [openDB, fileEnsure, allRecs]
    have := log_of_ops ops _ (logInv_init opt0) hok
    rw [h0, List.nil_append] at this
    exact this
  have hL : ∀ x ∈ allRecs s.files, RecOk x.1 := by
    intro x hx
    apply logOf_recOk ops hrec
    rw [← hlog]; exact List.mem_map.mpr ⟨x, hx, rfl⟩
  have hmk : MarkedLog (allRecs s.files) := markedLog_ops ops _ (logInv_init opt0) (packed_init opt0) (markedLog_init opt0) hok
  have hminv := minv_of_logInv s now hinv hpk hL hsz hmk
  have hasc : ((s.files.map (·.fid)).take k).Pairwise (· < ·) := List.Pairwise.sublist (List.take_sublist _ _) hpk.fids
  have hcov : ∀ g ∈ s.files, g.fid ∈ (s.files.map (·.fid)).take k ∨ ∀ x ∈ (s.files.map (·.fid)).take k, x < g.fid := by
    intro g hg
    have hgm : g.fid ∈ s.files.map (·.fid) := List.mem_map.mpr ⟨g, hg, rfl⟩
    rw [← List.take_append_drop k (s.files.map (·.fid))] at hgm
    rcases List.mem_append.mp hgm with h1 | h1
    · exact Or.inl h1
    · right
      intro x hx
      have hsplit := hpk.fids
      rw [← List.take_append_drop k (s.files.map (·.fid)), List.pairwise_append] at hsplit
      exact hsplit.2.2 x hx g.fid h1
  have hle' : ∀ x ∈ (s.files.map (·.fid)).take k, x ≤ s.activeFid := by
    intro x hx
    obtain ⟨g, hg, rfl⟩ := List.mem_map.mp (List.mem_of_mem_take hx)
    obtain ⟨pre0, a0, hf0, ha0, hpre0⟩ := hinv.shape.split
    rw [hf0] at hg
    rcases List.mem_append.mp hg with hg | hg
    · have := hpre0 g hg; omega
    · simp at hg; subst hg; omega
  obtain ⟨_, hminvk, hvis, _, hopt⟩ := go_spec now _ s txids hminv hasc hcov hle' hl
  have hmk1 : sk.opt.mode = 0 := by show (merge.go now s _ txids).1.opt.mode = 0; rw [hopt]; exact hm
  obtain ⟨a1, a2, a3, a4⟩ := reads_of_vis_minv s sk now hminv hminvk hm hmk1 hvis t ht b
  have hkvrecs : ∀ r ∈ recs, r.ds = dsKV := by
    intro r hr
    obtain ⟨p, hp, rfl⟩ := List.mem_map.mp hr
    exact (hminvk.recs _ (mem_allRecs_of sk.files f hf p (List.mem_filter.mp hp).1)).1
  refine ⟨?_, ?_⟩
  · intro j hfresh
    obtain ⟨c0, c1, c2, c3, c4⟩ := crash_in_rewrite sk now hminvk hmk1 recs hkvrecs tid hfresh j opt hmo t hle ht b
    exact ⟨c0, fun key => by rw [c1 key, a1 key], by rw [c2, a2], fun st en => by rw [c3 st en, a3 st en],
      fun pre mt => by rw [c4 pre mt, a4 pre mt]⟩
  · intro hne
    obtain ⟨c0, c1, c2, c3, c4⟩ := crash_after_rewrite sk now hminvk hmk1 f hf tid hne opt hmo t hle ht b
    exact ⟨c0, fun key => by rw [c1 key, a1 key], by rw [c2, a2], fun st en => by rw [c3 st en, a3 st en],
      fun pre mt => by rw [c4 pre mt, a4 pre mt]⟩

/-! ### finding D-MERGE-ZPOS: a rank-based removal outlives the insertion it removed -/

/-- `ZAdd a` (score 2), `ZAdd b` (score 1), `ZPopMax` — one record per 60-byte segment -/
def zposState : State :=
  (commit (commit (commit (openDB { seg := 60 } []).1
    [{ (mkRec [98] [97, 124, 50] [1] flagZAdd dsZSet 0 0 2) with txid := 1 }]).1
    [{ (mkRec [98] [98, 124, 49] [1] flagZAdd dsZSet 0 0 1) with txid := 2 }]).1
    [{ (mkRec [98] [32] [] flagZPopMax dsZSet) with txid := 3 }]).1

/-- **Witness of D-MERGE-ZPOS (the property is false for sorted sets at crash points of Merge).** After the three
commits the sorted set holds `b` alone. Merge's first step selects nothing from file 0 (`ZAdd a`: `a` is no longer
a member) and removes the file; at that crash point the directory holds `ZAdd b` and `ZPopMax`, and `Open` pops
`b`: the set is empty. Implementation and model agree (`corpus/D-MERGE-ZPOS.ops`). -/
theorem C16_witness_zpos :
    zposState.files.map (·.fid) = [0, 1, 2] ∧
    (zposState.zsets.map fun p => (p.1, p.2.map (·.key))) = [([98], [[98]])] ∧
    (zposState.files.head?.map fun f => mergeSelect zposState f 0) = some (.ok []) ∧
    ((openDB { seg := 60 } (zposState.files.filter (·.fid != 0))).1.zsets.map fun p => (p.1, p.2.map (·.key))) = [([98], [])] := by
  decide +kernel

/-- **regenerated tie.** the order of the steps of `Merge` for one file — scan, select, rewrite transaction, remove — which the crash-point theorems above quantify over, is read off the source on this run (`NutsProofs.Facts.expectedMergeStmts`). -/
theorem C16_merge_statements_regenerated : NutsGen.F.mergeStmts = NutsProofs.Facts.expectedMergeStmts :=
  NutsProofs.Facts.merge_stmts_ok

end NutsProofs.C16
