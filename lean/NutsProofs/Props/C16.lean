/-
  C16 — A crash during Merge loses or changes nothing.
  Record-level core for key-addressed records: replaying a KV record a second time (the rewritten
  copy next to the not yet removed original) does not change the index content for its key.
-/
import Nuts.Model.Tx
import NutsProofs.Lemmas.Assoc
namespace NutsProofs.C16
open Nuts Nuts.Model Nuts.Model.DB NutsProofs

/-- upserting the same key twice keeps only the second value: a rewritten copy supersedes the original -/
theorem upsert_upsert {α} (m : Assoc α) (k : Bytes) (v w : α) : upsert (upsert m k v) k w = upsert m k w := by
  induction m with
  | nil => simp [upsert, bcmp_refl]
  | cons p rest ih =>
    obtain ⟨k0, v0⟩ := p
    simp only [upsert]
    cases h : bcmp k k0 with
    | lt => simp [upsert, bcmp_refl]
    | eq => simp [upsert, bcmp_refl]
    | gt => simp [upsert, h, ih]

/-- **C16 (KV, idempotence).** Applying the rewritten copy of a KV record after the original leaves
the same value for the key as the copy alone: a crash that leaves both the old segment and the new
file on disk recovers the same key/value content. -/
theorem applyKV_twice_value (s : State) (r : Rec) (f1 p1 f2 p2 : Nat) :
    ((aget? (applyKV (applyKV s r f1 p1) r f2 p2).kv r.bucket).bind (aget? · r.key)).map (·.r) =
    ((aget? (applyKV s r f2 p2).kv r.bucket).bind (aget? · r.key)).map (·.r) := by
  simp [applyKV, aget_aput_self, aget_upsert_self]

/-- set insertion is idempotent: replaying an SAdd record twice gives the same set -/
theorem sadd_idem (m : SetDS.St) (k : Bytes) (x : Bytes) :
    SetDS.get? (SetDS.sadd (SetDS.sadd m k [x]) k [x]) k = SetDS.get? (SetDS.sadd m k [x]) k := by
  have hself : ∀ (s : SetDS.St) (v : List Bytes), SetDS.get? (SetDS.put s k v) k = some v := by
    intro s v
    induction s with
    | nil => simp [SetDS.put, SetDS.get?]
    | cons p rest ih => obtain ⟨k', v'⟩ := p; by_cases h : k' = k <;> simp [SetDS.put, SetDS.get?, h, ih]
  simp only [SetDS.sadd, hself, Option.getD_some, List.foldl_cons, List.foldl_nil]
  congr 1
  unfold SetDS.insert
  split
  · rename_i h; simp [h]
  · simp

/-- Witness for lists (finding D-MERGE): a push replayed twice is NOT idempotent. -/
theorem C16_witness_push_not_idempotent :
    (ListDS.rpush (ListDS.rpush [] [107] [[1]]).1 [107] [[1]]).1 ≠ (ListDS.rpush [] [107] [[1]]).1 := by decide

end NutsProofs.C16
