/-
  Property C19 — storage options do not change results.

  * RWMode, StartFileLoadingMode and SyncEnable: the model forgets them when the database is opened
    (`Opts.core`), so two option sets that agree on the index mode and the segment size produce the *same*
    model state at `Open`, hence the same result for every later call and the same files — `C19_io_options_irrelevant`
    and its corollary for any observation. What makes this a statement about nutsdb is the correspondence:
    suites `db-optskv` / `db-optsmixed` run every generated history under all combinations of the options
    and compare each run with this one model.
  * The two RAM index modes: `Open` rebuilds the same key/value index from the same files
    (`C22_ram_switch_same_index`), and — `C19_key_only_reads_what_key_value_keeps` — on well-formed files
    every index entry's hint addresses a record with the same bucket, key, value, timestamp, TTL and flag,
    so a key-only read (which re-reads the record from disk) returns what key+value mode keeps in memory.
-/
import Nuts.Model.DB
import NutsProofs.Lemmas.Assoc
import NutsProofs.Props.C22
import NutsProofs.Lemmas.Hints
namespace NutsProofs.C19
open Nuts Nuts.Model Nuts.Model.DB NutsProofs
open NutsProofs.Hints (WellFormed readAt_of_mem)

/-- **RWMode, StartFileLoadingMode and SyncEnable do not influence the model**: `Open` yields the same
state (indexes, files, write position — and the stored options themselves). -/
theorem C19_io_options_irrelevant (o1 o2 : Opts) (fs : List File) (hm : o1.mode = o2.mode) (hs : o1.seg = o2.seg) :
    openDB o1 fs = openDB o2 fs := by
  have hc : o1.core = o2.core := by simp [Opts.core, hm, hs]
  unfold openDB
  simp only [hc]

/-- … hence every later call, being a function of the state, returns the same under both option sets. -/
theorem C19_any_observation {α} (obs : State → α) (o1 o2 : Opts) (fs : List File) (hm : o1.mode = o2.mode) (hs : o1.seg = o2.seg) :
    obs (openDB o1 fs).1 = obs (openDB o2 fs).1 := by
  rw [C19_io_options_irrelevant o1 o2 fs hm hs]

example : openDB { mode := 1, rw := 0, startRw := 0, sync := false, seg := 64 } [] =
          openDB { mode := 1, rw := 1, startRw := 1, sync := true, seg := 64 } [] := by
  exact C19_io_options_irrelevant _ _ _ rfl rfl

/-! ### key-only mode reads what key+value mode keeps -/

/-- the API-visible part of a record (the commit marker `status` and the tx id are not exported) -/
def visible (r : Rec) : Bytes × Bytes × Bytes × Nat × Nat × Nat := (r.bucket, r.key, r.value, r.ts, r.ttl, r.flag)

/-- every index entry is a record of the files, at the position its hint names -/
def HintsPointToRecords (s : State) (fs : List File) : Prop :=
  ∀ b m k i, aget? s.kv b = some m → aget? m k = some i →
    ∃ f r, f ∈ fs ∧ f.fid = i.fid ∧ (i.pos, r) ∈ f.recs ∧ visible r = visible i.r

theorem applyKV_hints (s : State) (fs : List File) (r r0 : Rec) (f : File) (pos : Nat)
    (h : HintsPointToRecords s fs) (hf : f ∈ fs) (hr : (pos, r0) ∈ f.recs) (hv : visible r0 = visible r) :
    HintsPointToRecords (applyKV s r f.fid pos) fs := by
  intro b m k i hb hk
  unfold applyKV at hb
  simp only at hb
  by_cases hbb : b = r.bucket
  · subst hbb
    rw [aget_aput_self] at hb
    cases hb
    by_cases hkk : k = r.key
    · subst hkk
      rw [aget_upsert_self] at hk
      cases hk
      exact ⟨f, r0, hf, rfl, hr, hv⟩
    · rw [aget_upsert_other _ _ _ _ hkk] at hk
      cases hm : aget? s.kv r.bucket with
      | none => simp [hm, aget?] at hk
      | some m0 => simp only [hm, Option.getD_some] at hk; exact h _ m0 k i hm hk
  · rw [aget_aput_other _ _ _ _ hbb] at hb
    exact h b m k i hb hk

theorem replay_hints (rs : List (Rec × Nat × Nat)) (ids : List Nat) (s : State) (fs : List File)
    (hkv : ∀ x ∈ rs, x.1.ds = dsKV)
    (hsrc : ∀ x ∈ rs, ∃ f, f ∈ fs ∧ f.fid = x.2.1 ∧ (x.2.2, x.1) ∈ f.recs)
    (h : HintsPointToRecords s fs) : HintsPointToRecords (replay s rs ids).1 fs := by
  induction rs generalizing s with
  | nil => exact h
  | cons x rest ih =>
    obtain ⟨r, fid, pos⟩ := x
    have hr : r.ds = dsKV := hkv (r, fid, pos) (by simp)
    simp only [replay]
    split
    · exact ih s (fun x hx => hkv x (by simp [hx])) (fun x hx => hsrc x (by simp [hx])) h
    · simp only [hr, beq_self_eq_true, ↓reduceIte]
      apply ih _ (fun x hx => hkv x (by simp [hx])) (fun x hx => hsrc x (by simp [hx]))
      obtain ⟨f, hf, hfid, hrec⟩ := hsrc (r, fid, pos) (by simp)
      simp only at hfid hrec
      rw [← hfid]
      exact applyKV_hints s fs _ r f pos h hf hrec rfl

theorem allRecs_src (fs : List File) : ∀ x ∈ allRecs fs, ∃ f, f ∈ fs ∧ f.fid = x.2.1 ∧ (x.2.2, x.1) ∈ f.recs := by
  intro x hx
  unfold allRecs at hx
  simp only [List.mem_flatMap, List.mem_map] at hx
  obtain ⟨f, hf, ⟨o, r⟩, hor, rfl⟩ := hx
  exact ⟨f, hf, rfl, hor⟩

/-- after `Open` on key/value data, every hint addresses its record -/
theorem open_hints (o : Opts) (fs : List File)
    (hkv : ∀ x ∈ allRecs (fileEnsure fs ((fs.map (·.fid)).foldl max 0)), x.1.ds = dsKV) :
    HintsPointToRecords (openDB o fs).1 (openDB o fs).1.files := by
  have h0 : ∀ (s : State) (l : List File), s.kv = [] → HintsPointToRecords s l := by
    intro s l hs b m k i hb _
    rw [hs] at hb; simp [aget?] at hb
  unfold openDB
  simp only
  split
  · exact h0 _ _ rfl
  · split
    · exact h0 _ _ rfl
    · have hfiles : ∀ (rs : List (Rec × Nat × Nat)) (ids : List Nat) (s : State), (∀ x ∈ rs, x.1.ds = dsKV) → (replay s rs ids).1.files = s.files := by
        intro rs ids
        induction rs with
        | nil => intro s _; rfl
        | cons x rest ih =>
          intro s hk
          obtain ⟨r, fid, pos⟩ := x
          have hr : r.ds = dsKV := hk (r, fid, pos) (by simp)
          simp only [replay]
          split
          · exact ih s (fun x hx => hk x (by simp [hx]))
          · simp only [hr, beq_self_eq_true, ↓reduceIte]
            rw [ih _ (fun x hx => hk x (by simp [hx]))]
            rfl
      rw [hfiles _ _ _ hkv]
      exact replay_hints _ _ _ _ hkv (allRecs_src _) (h0 _ _ rfl)

/-- **A key-only read returns what key+value mode keeps in memory.** After `Open` of well-formed
key/value files, in any mode, re-reading an index entry from its hint position (what
`HintKeyAndRAMIdxMode` does on every read) yields a record with the same bucket, key, value,
timestamp, TTL and flag as the entry kept in RAM (what `HintKeyValAndRAMIdxMode` returns). -/
theorem C19_key_only_reads_what_key_value_keeps (o : Opts) (fs : List File)
    (hkv : ∀ x ∈ allRecs (fileEnsure fs ((fs.map (·.fid)).foldl max 0)), x.1.ds = dsKV)
    (hwf : WellFormed (openDB o fs).1.files)
    (b : Bytes) (m : Assoc Idx) (k : Bytes) (i : Idx)
    (hb : aget? (openDB o fs).1.kv b = some m) (hk : aget? m k = some i) :
    ∃ r, readAt (openDB o fs).1.files o.seg i.fid i.pos = .ok (some r) ∧ visible r = visible i.r := by
  obtain ⟨f, r, hf, hfid, hrec, hv⟩ := open_hints o fs hkv b m k i hb hk
  exact ⟨r, by rw [← hfid]; exact readAt_of_mem _ _ f i.pos r hwf hf hrec, hv⟩

open NutsProofs.Reopen NutsProofs.Hints in
/-- **C19 (index mode, along every history).** Run any history of key/value write transactions and reopens
from the empty database, in any RAM index mode. In the state it reaches, every key/value read — `Get`,
`GetAll`, `RangeScan`, `PrefixScan`, `PrefixSearchScan`, for all arguments and clock values — returns what the
same state returns with the key+value index mode (`withMode0`), up to the status byte no API returns: fetching
a value through its hint from the data file gives the record that the key+value mode keeps in RAM. Unlike
`C19_key_only_reads_what_key_value_keeps` this is not only about the state right after `Open`: the invariants
`Reopen.LogInv` and `Hints.Packed` are carried through every commit, rotation and reopen. -/
theorem C19_key_only_answers_like_key_value (opt0 : Opts) (ops : List Op) (hok : OpsOk (openDB opt0 []).1 ops) :
    let s := ops.foldl stepOp (openDB opt0 []).1
    (∀ b k now, vis (DB.get s b k now) = vis (DB.get (withMode0 s) b k now)) ∧
    (∀ b now, visL (getAll s b now) = visL (getAll (withMode0 s) b now)) ∧
    (∀ b st en now, visL (rangeScan s b st en now) = visL (rangeScan (withMode0 s) b st en now)) ∧
    (∀ b pre off lim now mt, visL (prefixScan s b pre off lim now mt) = visL (prefixScan (withMode0 s) b pre off lim now mt)) := by
  intro s
  exact reads_mode_independent s (logInv_ops ops _ (logInv_init opt0) hok)
    (packed_ops ops _ (logInv_init opt0) (packed_init opt0) hok)

/-- `Put(bucket a, key k, 16 bytes)` with transaction id `id` (60 bytes on disk) -/
def wPut (id k : Nat) : List Rec := [{ (mkRec [97] [k.toUInt8] (List.replicate 16 120) flagSet dsKV) with txid := id }]

open NutsProofs.Reopen in
/-- the theorem is about key-only databases that rotate: this history (key-only mode, 100-byte segments, a
reopen in the middle) meets its hypothesis, leaves three data files, and `Get` fetches the value through the
hint from the first file -/
theorem C19_witness_key_only_history :
    let ops := [Op.commit (wPut 1 1), .commit (wPut 2 2), .reopen { seg := 100, mode := 1 }, .commit (wPut 3 3)]
    let s := ops.foldl stepOp (openDB { seg := 100, mode := 1 } []).1
    OpsOk (openDB { seg := 100, mode := 1 } []).1 ops ∧ s.opt.mode = 1 ∧ s.files.map (·.fid) = [0, 1, 2] ∧
    (DB.get s [97] [1] 5).map (Option.map (·.value)) = .ok (some (List.replicate 16 120)) := by
  refine ⟨⟨⟨by simp [wPut], 1, ?_⟩, ⟨by simp [wPut], 2, ?_⟩, ⟨by simp [wPut], 3, ?_⟩, trivial⟩, by decide +kernel, by decide +kernel, by decide +kernel⟩
  all_goals (intro r hr; simp only [wPut, List.mem_singleton] at hr; subst hr; decide +kernel)

end NutsProofs.C19
