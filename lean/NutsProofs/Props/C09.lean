/-
  C09 — Open succeeds on every directory the library produced.
-/
import Nuts.Model.Tx
import NutsProofs.Props.C10
namespace NutsProofs.C09
open Nuts Nuts.Model Nuts.Model.DB NutsProofs

/-- replaying key/value records never fails, in either RAM mode -/
theorem replay_kv_ok (rs : List (Rec × Nat × Nat)) (ids : List Nat) (s : State)
    (h : ∀ x ∈ rs, x.1.ds = dsKV) : (replay s rs ids).2 = .ok () := by
  induction rs generalizing s with
  | nil => rfl
  | cons x rest ih =>
    obtain ⟨r, fid, pos⟩ := x
    have hr : (r.ds == dsKV) = true := by simpa using h (r, fid, pos) (by simp)
    have hrest : ∀ x ∈ rest, x.1.ds = dsKV := fun y hy => h y (by simp [hy])
    simp only [replay]
    split
    · exact ih s hrest
    · first
        | exact ih _ hrest
        | (split
           · exact ih _ hrest
           · rename_i hn; exact absurd hr hn)

/-- **C09 (key/value logs).** `Open` succeeds on any set of data files that hold key/value records
only and no record cut short by a crash — whatever the records are (committed or not, duplicated,
from failed transactions), however full the segments are, in both RAM modes and both RW modes
(the MMap exception was finding D-MMAP-FULL, fixed). -/
theorem C09_open_ok_kv (opt : Opts) (fs : List File)
    (hnt : ∀ f ∈ fileEnsure fs ((fs.map (·.fid)).foldl max 0), f.torn = false)
    (hkv : ∀ x ∈ allRecs (fileEnsure fs ((fs.map (·.fid)).foldl max 0)), x.1.ds = dsKV) :
    (openDB opt fs).2 = .ok () := by
  unfold openDB
  simp only
  split
  · rfl
  · split
    · rename_i ht
      rw [List.any_eq_true] at ht
      obtain ⟨f, hf, hft⟩ := ht
      rw [hnt f hf] at hft
      cases hft
    · exact replay_kv_ok _ _ _ hkv

/-- Witness of the open finding D-TORN-CRC: a record cut short by a crash makes `Open` fail. -/
theorem C09_witness_torn :
    (openDB {} [{ fid := 0, recs := [], torn := true }]).2 = .err := by decide

/-- exactly full segment, MMap: opens (regression of D-MMAP-FULL) -/
example : (openDB { rw := 1, startRw := 1, seg := 46 }
    [{ fid := 0, recs := [(0, { (mkRec [97] [107] [1, 2] flagSet dsKV) with status := 1 })] }]).2 = .ok () := by decide

end NutsProofs.C09
