/-
  C09 — Open succeeds on every directory the library produced.
  Proved over the model of `Open`: (1) KV logs open in both RAM modes; (2) in the key+value mode `Open`
  never returns an error on any log without a torn record, and succeeds on every log without list
  records (list records can only make replay *panic*, on argument shapes the API never writes).
-/
import Nuts.Model.Tx
import NutsProofs.Props.C10
import NutsProofs.Lemmas.ReopenAll
namespace NutsProofs.C09
open Nuts Nuts.Model Nuts.Model.DB NutsProofs

/-- replaying key/value records never fails, in either RAM mode -/
theorem replay_kv_ok (rs : List (Rec × Nat × Nat)) (ids : List Nat) (s : State)
    (h : ∀ x ∈ rs, x.1.ds = dsKV) : (replay s rs ids).2 = .ok () := by
  induction rs generalizing s with
  | nil => rfl
  | cons x rest ih =>
    obtain ⟨r, fid, pos⟩ := x
    have hr : (r.ds == dsKV) = true := by simpa using h (r, fid, pos) (by simp)
    have hrest : ∀ x ∈ rest, x.1.ds = dsKV := fun y hy => h y (by simp [hy])
    simp only [replay]
    split
    · exact ih s hrest
    · first
        | exact ih _ hrest
        | (split
           · exact ih _ hrest
           · rename_i hn; exact absurd hr hn)

/-- **C09 (key/value logs).** `Open` succeeds on any set of data files that hold key/value records
only and no record cut short by a crash — whatever the records are (committed or not, duplicated,
from failed transactions), however full the segments are, in both RAM modes and both RW modes
(the MMap exception was finding D-MMAP-FULL, fixed). -/
theorem C09_open_ok_kv (opt : Opts) (fs : List File)
    (hnt : ∀ f ∈ fileEnsure fs ((fs.map (·.fid)).foldl max 0), f.torn = false)
    (hkv : ∀ x ∈ allRecs (fileEnsure fs ((fs.map (·.fid)).foldl max 0)), x.1.ds = dsKV) :
    (openDB opt fs).2 = .ok () := by
  unfold openDB
  simp only
  split
  · rfl
  · split
    · rename_i ht
      rw [List.any_eq_true] at ht
      obtain ⟨f, hf, hft⟩ := ht
      rw [hnt f hf] at hft
      cases hft
    · exact replay_kv_ok _ _ _ hkv

/-- Witness of the open finding D-TORN-CRC: a record cut short by a crash makes `Open` fail. -/
theorem C09_witness_torn :
    (openDB {} [{ fid := 0, recs := [], torn := true }]).2 = .err := by decide

/-- exactly full segment, MMap: opens (regression of D-MMAP-FULL) -/
example : (openDB { rw := 1, startRw := 1, seg := 46 }
    [{ fid := 0, recs := [(0, { (mkRec [97] [107] [1, 2] flagSet dsKV) with status := 1 })] }]).2 = .ok () := by decide


/-! ### every structure, key+value mode: `Open` never returns an error (fix of D-REPLAY-ABORT as a theorem) -/

/-- a set record never makes the applier panic -/
theorem applySet_no_panic (m : SetDS.St) (r : Rec) : (applySet m r).2 ≠ .panic := by
  unfold applySet
  split
  · unfold SetDS.srem
    cases SetDS.get? m r.key with
    | none => simp
    | some l => by_cases h : r.value.isEmpty <;> simp [h]
  · split <;> simp

/-- on `Open` (`atCommit = false`) a sorted-set record never fails and never panics -/
theorem applyZSet_open_ok (z : ZSetA.St) (r : Rec) : (applyZSet z r false).2 = .ok () := by
  unfold applyZSet
  repeat' split
  all_goals first | rfl | simp_all

/-- replaying a record that is not a list record does not panic -/
theorem applyOther_open_no_panic (s : State) (r : Rec) (h : r.ds ≠ dsList) : (applyOther s r false).2 ≠ .panic := by
  unfold applyOther
  split
  · exact applySet_no_panic _ _
  · split
    · simp [applyZSet_open_ok]
    · split
      · rename_i hl; exact absurd (by simpa using hl) h
      · simp

/-- the options of the state do not change during replay -/
theorem applyOther_opt (s : State) (r : Rec) (c : Bool) : (applyOther s r c).1.opt = s.opt := by
  unfold applyOther
  split
  · rfl
  · split
    · rfl
    · split <;> rfl

/-- one step of replay on a structure record in the key+value mode -/
theorem replay_cons_other (s : State) (r : Rec) (fid pos : Nat) (rest : List (Rec × Nat × Nat)) (ids : List Nat)
    (hin : r.txid ∈ ids) (hkv : r.ds ≠ dsKV) (hm : s.opt.mode = 0) :
    replay s ((r, fid, pos) :: rest) ids =
      (match (applyOther s r false).2 with
       | .panic => ((applyOther s r false).1, .panic)
       | _ => replay (applyOther s r false).1 rest ids) := by
  simp only [replay]
  simp only [List.contains_eq_mem, hin, decide_true, Bool.not_true, Bool.false_eq_true, ↓reduceIte, beq_iff_eq, hkv, hm, bne_self_eq_false]
  cases h : applyOther s r false with
  | mk s' o => cases o <;> rfl

/-- in the key+value mode replay never returns an error: errors of the structure calls are ignored
exactly as at commit time (this is the fix of D-REPLAY-ABORT, as a theorem about every log) -/
theorem replay_mode0_no_err (rs : List (Rec × Nat × Nat)) (ids : List Nat) (s : State)
    (hm : s.opt.mode = 0) : (replay s rs ids).2 ≠ .err := by
  induction rs generalizing s with
  | nil => simp [replay]
  | cons x rest ih =>
    obtain ⟨r, fid, pos⟩ := x
    by_cases hin : r.txid ∈ ids
    · by_cases hkv : r.ds = dsKV
      · have : replay s ((r, fid, pos) :: rest) ids = replay (applyKV s { r with status := 1 } fid pos) rest ids := by
          simp [replay, hin, hkv]
        rw [this]
        exact ih _ (by simpa [applyKV] using hm)
      · rw [replay_cons_other s r fid pos rest ids hin hkv hm]
        have hopt := applyOther_opt s r false
        split
        · simp
        · exact ih _ (by rw [hopt]; exact hm)
    · have : replay s ((r, fid, pos) :: rest) ids = replay s rest ids := by
        simp [replay, hin]
      rw [this]; exact ih s hm

/-- in the key+value mode replay of a log without list records succeeds, whatever the records are -/
theorem replay_mode0_nolist_ok (rs : List (Rec × Nat × Nat)) (ids : List Nat) (s : State)
    (hm : s.opt.mode = 0) (h : ∀ x ∈ rs, x.1.ds ≠ dsList) : (replay s rs ids).2 = .ok () := by
  induction rs generalizing s with
  | nil => rfl
  | cons x rest ih =>
    obtain ⟨r, fid, pos⟩ := x
    have hr : r.ds ≠ dsList := h (r, fid, pos) (by simp)
    have hrest : ∀ x ∈ rest, x.1.ds ≠ dsList := fun y hy => h y (by simp [hy])
    by_cases hin : r.txid ∈ ids
    · by_cases hkv : r.ds = dsKV
      · have : replay s ((r, fid, pos) :: rest) ids = replay (applyKV s { r with status := 1 } fid pos) rest ids := by
          simp [replay, hin, hkv]
        rw [this]
        exact ih _ (by simpa [applyKV] using hm) hrest
      · rw [replay_cons_other s r fid pos rest ids hin hkv hm]
        have hopt := applyOther_opt s r false
        have hnp := applyOther_open_no_panic s r hr
        split
        · rename_i heq; exact absurd heq hnp
        · exact ih _ (by rw [hopt]; exact hm) hrest
    · have : replay s ((r, fid, pos) :: rest) ids = replay s rest ids := by
        simp [replay, hin]
      rw [this]; exact ih s hm hrest

/-- **C09 (key+value mode, no torn record): `Open` never returns an error.** For every set of data
files — any records of any structure, committed or not, from failed transactions, duplicated by a
merge, any fill level — `Open` in `HintKeyValAndRAMIdxMode` does not fail. -/
theorem C09_open_mode0_never_err (opt : Opts) (fs : List File) (hm : opt.mode = 0)
    (hnt : ∀ f ∈ fileEnsure fs ((fs.map (·.fid)).foldl max 0), f.torn = false) :
    (openDB opt fs).2 ≠ .err := by
  unfold openDB
  simp only
  split
  · simp
  · split
    · rename_i ht
      rw [List.any_eq_true] at ht
      obtain ⟨f, hf, hft⟩ := ht
      rw [hnt f hf] at hft
      cases hft
    · exact replay_mode0_no_err _ _ _ hm

/-- **C09 (key+value mode, KV + set + sorted-set logs): `Open` succeeds.** -/
theorem C09_open_mode0_nolist_ok (opt : Opts) (fs : List File) (hm : opt.mode = 0)
    (hnt : ∀ f ∈ fileEnsure fs ((fs.map (·.fid)).foldl max 0), f.torn = false)
    (hnl : ∀ x ∈ allRecs (fileEnsure fs ((fs.map (·.fid)).foldl max 0)), x.1.ds ≠ dsList) :
    (openDB opt fs).2 = .ok () := by
  unfold openDB
  simp only
  split
  · rfl
  · split
    · rename_i ht
      rw [List.any_eq_true] at ht
      obtain ⟨f, hf, hft⟩ := ht
      rw [hnt f hf] at hft
      cases hft
    · exact replay_mode0_nolist_ok _ _ _ hm hnl

/-- the hypotheses are met by a log with a set record whose removal fails at replay (`SRem` on a set
that does not exist — the shape that used to abort `Open`, D-REPLAY-ABORT) and a sorted-set record -/
example : (openDB {} [{ fid := 0, recs := [
      (0, { (mkRec [98] [97, 98] [121] flagDelete dsSet) with txid := 1, status := 1 }),
      (46, { (mkRec [98] [107, 124, 53] [118] flagZAdd dsZSet) with txid := 2, status := 1, score := 5 })] }]).2 = .ok () := by decide

open NutsProofs.Reopen NutsProofs.ReopenAll in
/-- **C09 (every history, key+value mode).** After any history of successfully committed transactions over
all four structures and reopens — and also when the process died inside the next `Commit` after any number of
its records short of the last — `Open` succeeds on the directory: no error, no panic. (Records that never
panicked the applier at commit time do not panic it at replay; an unmarked suffix is skipped.) Torn records
are outside this theorem: finding D-TORN-CRC. -/
theorem C09_open_succeeds_after_every_history (opt0 : Opts) (ops : List OpA) (hok : OpsOkA (openDB opt0 []).1 ops)
    (opt : Opts) (hm : opt.mode = 0) :
    (openDB opt (ops.foldl stepA (openDB opt0 []).1).files).2 = .ok () ∧
    ∀ (t : List Rec) (tid j : Nat), (∀ r ∈ t, r.txid = tid ∧ r.status = 0) →
      (∀ x ∈ allRecs (ops.foldl stepA (openDB opt0 []).1).files, x.1.txid ≠ tid) →
      (openDB opt (crashAfterA (ops.foldl stepA (openDB opt0 []).1) t j).files).2 = .ok () := by
  have hinv : AllInv (ops.foldl stepA (openDB opt0 []).1) := allInv_ops ops _ (allInv_init opt0) hok
  exact ⟨(open_rebuilds_all _ hinv opt hm).1,
    fun t tid j ht hfresh => (crash_in_commit_any _ hinv t tid j ht hfresh opt hm).1⟩

end NutsProofs.C09
