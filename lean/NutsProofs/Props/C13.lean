/-
  C13 — Write transactions are serializable (read-your-writes inside a transaction).
  The property is FALSE of the code by design (finding D-NO-RYW): every read, pop and validation of
  the transactional API consults the committed indexes only.
-/
import Nuts.Model.Tx
import NutsProofs.Lemmas.ReopenAll
import NutsProofs.Pins.Appliers
namespace NutsProofs.C13
open Nuts Nuts.Model Nuts.Model.DB

/-- whether `tx.put` accepts a record does not depend on what is already queued -/
theorem txPut_outcome_ignores_pending (t : Tx) (p : List Rec) (r : Rec) :
    (txPut { t with pending := p } r).2 = (txPut t r).2 := by
  unfold txPut
  simp only
  split
  · rfl
  · split
    · rfl
    · split <;> rfl

/-- Root cause, as a theorem about the model: what `LPop`/`RPop` returns does not depend on the
records the transaction has already queued. -/
theorem txPop_ignores_pending (s : State) (t : Tx) (p : List Rec) (b k : Bytes) (ts : Nat) (left : Bool) :
    (txPop s { t with pending := p } b k ts left).2 = (txPop s t b k ts left).2 := by
  have hpeek : txPeek s { t with pending := p } b k left = txPeek s t b k left := rfl
  unfold txPop
  rw [hpeek]
  cases txPeek s t b k left with
  | ok item =>
    simp only
    have h := txPut_outcome_ignores_pending t p (mkRec b k item (if left then flagLPop else flagRPop) dsList ts)
    generalize txPut { t with pending := p } _ = a at h ⊢
    generalize txPut t _ = c at h ⊢
    obtain ⟨a1, a2⟩ := a
    obtain ⟨c1, c2⟩ := c
    simp only at h
    subst h
    cases a2 <;> rfl
  | err => rfl
  | panic => rfl

/-- committed list `[a]` -/
def s0 : State := (commit (openDB {} []).1 [{ (mkRec [98] [107] [97] flagRPush dsList) with txid := 1 }]).1

/-- Witness of D-NO-RYW: two `LPop`s in one write transaction on the list `[a]` both return `a`
(a serial execution would return `a` and then fail). -/
theorem C13_witness_double_pop :
    let t0 : Tx := { id := 2, writable := true }
    let (t1, r1) := txPop s0 t0 [98] [107] 0 true
    let (_, r2) := txPop s0 t1 [98] [107] 0 true
    r1 = .ok [97] ∧ r2 = .ok [97] := by
  decide

/-- **C13, the part that holds.** A transaction's first pop on a list it has not touched returns the
head of the committed list, which is the element the commit removes. -/
theorem C13_first_pop_is_head (s : State) (t : Tx) (b k x : Bytes) (xs : List Bytes) (l : ListDS.St) (ts : Nat)
    (ho : t.closed = false) (hw : t.writable = true) (hk : k ≠ [])
    (hl : listOf s b = some l) (hg : ListDS.get? l k = some (x :: xs)) :
    (txPop s t b k ts true).2 = .ok x ∧ (ListDS.lpop l k).1 = ListDS.put l k xs := by
  constructor
  · have hk' : k.isEmpty = false := by cases k <;> simp_all
    simp [txPop, txPeek, ho, hl, ListDS.lpeek, hg, txPut, hw, mkRec, hk']
  · simp [ListDS.lpop, hg]

example : listOf s0 [98] ≠ none := by decide

/-- … the same from the right: the first `RPop` on an untouched list returns its last element, which is the
element the commit removes. -/
theorem C13_first_rpop_is_last (s : State) (t : Tx) (b k x : Bytes) (xs : List Bytes) (l : ListDS.St) (ts : Nat)
    (ho : t.closed = false) (hw : t.writable = true) (hk : k ≠ [])
    (hl : listOf s b = some l) (hg : ListDS.get? l k = some (xs ++ [x])) :
    (txPop s t b k ts false).2 = .ok x ∧ (ListDS.rpop l k).1 = ListDS.put l k xs := by
  have hne : xs ++ [x] ≠ [] := by simp
  constructor
  · have hk' : k.isEmpty = false := by cases k <;> simp_all
    simp [txPop, txPeek, ho, hl, ListDS.rpeek, hg, txPut, hw, mkRec, hk']
  · simp [ListDS.rpop, hg]

/-- **sorted sets.** The first `ZPopMax` / `ZPopMin` of a transaction on a sorted set it has not touched
returns the last / first node of the committed set (the maximum / minimum in (score, key) order), queues exactly
one record, and applying that record at commit (or at `Open`) removes exactly the node that was returned. -/
theorem C13_first_zpop_is_extreme (s : State) (t : Tx) (b : Bytes) (z : ZSetA.St) (ts : Nat) (isMax atCommit : Bool)
    (ho : t.closed = false) (hw : t.writable = true) (hz : zsetOf s b = some z) :
    let rec_ : Rec := { (mkRec b [32] [] (if isMax then flagZPopMax else flagZPopMin) dsZSet ts) with txid := t.id, status := 0 }
    (txZPop s t b ts isMax).2 = .ok (if isMax then z.getLast? else z.head?) ∧
    (txZPop s t b ts isMax).1.pending = t.pending ++ [rec_] ∧
    (applyZSet z rec_ atCommit).1 = (if isMax then (ZSetA.popMax z).2 else (ZSetA.popMin z).2) ∧
    (if isMax then (ZSetA.popMax z).1 else (ZSetA.popMin z).1) = (if isMax then z.getLast? else z.head?) := by
  intro rec_
  have hput : txPut t (mkRec b [32] [] (if isMax then flagZPopMax else flagZPopMin) dsZSet ts) =
      ({ t with pending := t.pending ++ [rec_] }, .ok ()) := by
    simp [txPut, ho, hw, rec_, mkRec]
  refine ⟨?_, ?_, ?_, ?_⟩
  · simp only [txZPop, ho, hz, Bool.false_eq_true, if_false]
    rw [hput]
  · simp only [txZPop, ho, hz, Bool.false_eq_true, if_false]
    rw [hput]
  · cases isMax <;> simp [applyZSet, rec_, mkRec, flagZPopMax, flagZPopMin, flagZAdd, flagZRem, flagZRemRangeByRank]
  · cases isMax
    · simp only [Bool.false_eq_true, if_false, ZSetA.popMin]
      cases z <;> rfl
    · simp only [if_true, ZSetA.popMax]
      cases hl : z.getLast? <;> rfl

/-- **sets.** The first `SPop` of a transaction on a set it has not touched returns a member, queues one
removal record for it, and applying that record removes exactly that member. -/
theorem C13_first_spop_removes_member (s : State) (t : Tx) (b k x : Bytes) (m : SetDS.St) (mem : List Bytes) (ts : Nat)
    (ho : t.closed = false) (hw : t.writable = true) (hk : k ≠ []) (hx : x ≠ [])
    (hm : setOf s b = some m) (hg : SetDS.get? m k = some mem) (hin : mem.contains x = true) :
    let rec_ : Rec := { (mkRec b k x flagDelete dsSet ts) with txid := t.id, status := 0 }
    (txSPop s t b k (some x) ts).2 = .ok x ∧
    (txSPop s t b k (some x) ts).1.pending = t.pending ++ [rec_] ∧
    (applySet m rec_).1 = SetDS.put m k (mem.filter fun y => y ≠ x) := by
  intro rec_
  have hk' : k.isEmpty = false := by cases k <;> simp_all
  have hput : txPut t (mkRec b k x flagDelete dsSet ts) = ({ t with pending := t.pending ++ [rec_] }, .ok ()) := by
    simp [txPut, ho, hw, rec_, mkRec, hk']
  have hin' : x ∈ mem := by simpa using hin
  have hmem : SetDS.sismember m k x = true := by simp [SetDS.sismember, hg, hin']
  refine ⟨?_, ?_, ?_⟩
  · simp only [txSPop, ho, hm, hmem, Bool.false_eq_true, if_false, if_true]
    rw [hput]
  · simp only [txSPop, ho, hm, hmem, Bool.false_eq_true, if_false, if_true]
    rw [hput]
  · have hx' : x.isEmpty = false := by cases x <;> simp_all
    simp only [applySet, rec_, mkRec, SetDS.srem, hg, hx']
    simp

open NutsProofs.Reopen NutsProofs.ReopenAll in
/-- **C13, the state a transaction leaves.** Whatever a write transaction queued — pushes, pops, `LRem`,
`LSet`, `LTrim`, set insertions and removals, sorted-set insertions, removals and pops, over any buckets, any
number of them — when `Commit` succeeds, the lists, sets and sorted sets it leaves are those at its start with
the queued operations applied **one after another, in the order they were issued**, and none of those
applications panics. (What the property demands beyond this — that the values *returned* inside the
transaction are those of that sequential run — holds for the first operation on each structure
(`C13_first_pop_is_head`, `C13_first_rpop_is_last`, `C13_first_zpop_is_extreme`,
`C13_first_spop_removes_member`) and fails after it: finding D-NO-RYW, `C13_witness_double_pop`.) -/
theorem C13_commit_applies_operations_in_issue_order (s : State) (t : List Rec) (h : Shape s)
    (ht : AnyTx s.opt.seg t) (hok : (commit s t).2 = .ok ()) :
    sv (commit s t).1 = t.foldl (fun v r => (stepSV v r true).1) (sv s) ∧ NoPanic (sv s) t true :=
  commit_sv s t h ht hok

/-- **regenerated tie.** `buildIdxes` (the loop over the transaction's entries in issue order) and the appliers it
calls are, on this run, the source lines the model's `buildIdxes` / `applyOther` were written from. -/
theorem C13_appliers_regenerated : NutsGen.F.applierStmts = NutsProofs.Facts.expectedApplierStmts :=
  NutsProofs.Facts.appliers_ok

end NutsProofs.C13
