/-
  C13 — Write transactions are serializable (read-your-writes inside a transaction).
  The property is FALSE of the code by design (finding D-NO-RYW): every read, pop and validation of
  the transactional API consults the committed indexes only.
-/
import Nuts.Model.Tx
namespace NutsProofs.C13
open Nuts Nuts.Model Nuts.Model.DB

/-- whether `tx.put` accepts a record does not depend on what is already queued -/
theorem txPut_outcome_ignores_pending (t : Tx) (p : List Rec) (r : Rec) :
    (txPut { t with pending := p } r).2 = (txPut t r).2 := by
  unfold txPut
  simp only
  split
  · rfl
  · split
    · rfl
    · split <;> rfl

/-- Root cause, as a theorem about the model: what `LPop`/`RPop` returns does not depend on the
records the transaction has already queued. -/
theorem txPop_ignores_pending (s : State) (t : Tx) (p : List Rec) (b k : Bytes) (ts : Nat) (left : Bool) :
    (txPop s { t with pending := p } b k ts left).2 = (txPop s t b k ts left).2 := by
  have hpeek : txPeek s { t with pending := p } b k left = txPeek s t b k left := rfl
  unfold txPop
  rw [hpeek]
  cases txPeek s t b k left with
  | ok item =>
    simp only
    have h := txPut_outcome_ignores_pending t p (mkRec b k item (if left then flagLPop else flagRPop) dsList ts)
    generalize txPut { t with pending := p } _ = a at h ⊢
    generalize txPut t _ = c at h ⊢
    obtain ⟨a1, a2⟩ := a
    obtain ⟨c1, c2⟩ := c
    simp only at h
    subst h
    cases a2 <;> rfl
  | err => rfl
  | panic => rfl

/-- committed list `[a]` -/
def s0 : State := (commit (openDB {} []).1 [{ (mkRec [98] [107] [97] flagRPush dsList) with txid := 1 }]).1

/-- Witness of D-NO-RYW: two `LPop`s in one write transaction on the list `[a]` both return `a`
(a serial execution would return `a` and then fail). -/
theorem C13_witness_double_pop :
    let t0 : Tx := { id := 2, writable := true }
    let (t1, r1) := txPop s0 t0 [98] [107] 0 true
    let (_, r2) := txPop s0 t1 [98] [107] 0 true
    r1 = .ok [97] ∧ r2 = .ok [97] := by
  decide

/-- **C13, the part that holds.** A transaction's first pop on a list it has not touched returns the
head of the committed list, which is the element the commit removes. -/
theorem C13_first_pop_is_head (s : State) (t : Tx) (b k x : Bytes) (xs : List Bytes) (l : ListDS.St) (ts : Nat)
    (ho : t.closed = false) (hw : t.writable = true) (hk : k ≠ [])
    (hl : listOf s b = some l) (hg : ListDS.get? l k = some (x :: xs)) :
    (txPop s t b k ts true).2 = .ok x ∧ (ListDS.lpop l k).1 = ListDS.put l k xs := by
  constructor
  · have hk' : k.isEmpty = false := by cases k <;> simp_all
    simp [txPop, txPeek, ho, hl, ListDS.lpeek, hg, txPut, hw, mkRec, hk']
  · simp [ListDS.lpop, hg]

example : listOf s0 [98] ≠ none := by decide

end NutsProofs.C13
