/-
  C15 — Merge does not change the logical contents.
  False of the code for lists (and in several other situations, finding family D-MERGE): the witness
  below is the model's own computation, replayed on the implementation by corpus/D-MERGE.ops.
-/
import Nuts.Model.Tx
namespace NutsProofs.C15
open Nuts Nuts.Model Nuts.Model.DB

/-- list `[x, y]` in one segment, a KV record in a second one (Merge needs two files) -/
def s0 : State :=
  let a := (commit (openDB { seg := 100 } []).1
    [{ (mkRec [97] [97] [120] flagRPush dsList) with txid := 1 }, { (mkRec [97] [97] [121] flagRPush dsList) with txid := 1 }]).1
  (commit a [{ (mkRec [98] [107] [120] flagSet dsKV) with txid := 2 }]).1

/-- Witness of D-MERGE (lists): the rewrite transaction re-applies the pushes to the live index. -/
theorem C15_witness_list_duplicated :
    (aget? s0.lists [97]).bind (ListDS.get? · [97]) = some [[120], [121]] ∧
    (aget? (merge s0 0 [10, 11]).1.lists [97]).bind (ListDS.get? · [97]) = some [[120], [121], [120], [121]] := by
  decide

/-- Merge never rewrites a record whose flag is a removal or whose TTL has run out. -/
theorem isFilter_removal (r : Rec) (now : Nat)
    (h : r.flag = flagDelete ∨ r.flag = flagLPop ∨ r.flag = flagRPop ∨ r.flag = flagLRem ∨ r.flag = flagLTrim ∨
         r.flag = flagZRem ∨ r.flag = flagZRemRangeByRank ∨ r.flag = flagZPopMax ∨ r.flag = flagZPopMin) :
    isFilter r now = true := by
  unfold isFilter
  rcases h with h | h | h | h | h | h | h | h | h <;> simp [h]

/-- Merge with fewer than two data files refuses and changes nothing. -/
theorem merge_needs_two_files (s : State) (now : Nat) (ids : List Nat) (h : s.files.length < 2) :
    merge s now ids = (s, .err) := by
  simp [merge, h]

/-! ### Merge removes the active file when nothing is live (finding family D-MERGE) -/

/-- three keys written over two segments and then deleted: every record on disk is dead -/
def dead0 : State :=
  let v : Bytes := List.replicate 40 120
  let a := (commit (openDB { seg := 200 } []).1
    [{ (mkRec [97] [107, 49] v flagSet dsKV) with txid := 1 }, { (mkRec [97] [107, 50] v flagSet dsKV) with txid := 1 },
     { (mkRec [97] [107, 51] v flagSet dsKV) with txid := 1 }]).1
  (commit a [{ (mkRec [97] [107, 49] [] flagDelete dsKV) with txid := 2 }, { (mkRec [97] [107, 50] [] flagDelete dsKV) with txid := 2 },
             { (mkRec [97] [107, 51] [] flagDelete dsKV) with txid := 2 }]).1

/-- the state after that Merge and one more committed `Put` -/
def dead1 : State :=
  (commit (merge dead0 0 []).1 [{ (mkRec [97] [107, 52] [122] flagSet dsKV) with txid := 3 }]).1

/-- Witness (replayed on the implementation by corpus/D-MERGE-ACTIVE.ops): a Merge that finds nothing to
rewrite removes every data file, the active one included; the transaction committed afterwards is in
the index but in no file of the directory, and `Open` on that directory does not have the key. -/
theorem C15_witness_active_file_removed :
    dead0.files.length = 3 ∧ (merge dead0 0 []).2 = .ok () ∧ (merge dead0 0 []).1.files = [] ∧
    ((aget? dead1.kv [97]).bind (aget? · [107, 52])).isSome = true ∧ dead1.files = [] ∧
    ((aget? (openDB { seg := 200 } dead1.files).1.kv [97]).bind (aget? · [107, 52])).isSome = false := by
  decide

end NutsProofs.C15
