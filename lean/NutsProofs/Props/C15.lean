/-
  C15 — Merge does not change the logical contents.
  False of the code for lists (and in several other situations, finding family D-MERGE): the witness
  below is the model's own computation, replayed on the implementation by corpus/D-MERGE.ops.
-/
import Nuts.Model.Tx
namespace NutsProofs.C15
open Nuts Nuts.Model Nuts.Model.DB

/-- list `[x, y]` in one segment, a KV record in a second one (Merge needs two files) -/
def s0 : State :=
  let a := (commit ({ opt := { seg := 100 }, opened := true } : State)
    [{ (mkRec [97] [97] [120] flagRPush dsList) with txid := 1 }, { (mkRec [97] [97] [121] flagRPush dsList) with txid := 1 }]).1
  (commit a [{ (mkRec [98] [107] [120] flagSet dsKV) with txid := 2 }]).1

/-- Witness of D-MERGE (lists): the rewrite transaction re-applies the pushes to the live index. -/
theorem C15_witness_list_duplicated :
    (aget? s0.lists [97]).bind (ListDS.get? · [97]) = some [[120], [121]] ∧
    (aget? (merge s0 0 [10, 11]).1.lists [97]).bind (ListDS.get? · [97]) = some [[120], [121], [120], [121]] := by
  decide

/-- Merge never rewrites a record whose flag is a removal or whose TTL has run out. -/
theorem isFilter_removal (r : Rec) (now : Nat)
    (h : r.flag = flagDelete ∨ r.flag = flagLPop ∨ r.flag = flagRPop ∨ r.flag = flagLRem ∨ r.flag = flagLTrim ∨
         r.flag = flagZRem ∨ r.flag = flagZRemRangeByRank ∨ r.flag = flagZPopMax ∨ r.flag = flagZPopMin) :
    isFilter r now = true := by
  unfold isFilter
  rcases h with h | h | h | h | h | h | h | h | h <;> simp [h]

/-- Merge with fewer than two data files refuses and changes nothing. -/
theorem merge_needs_two_files (s : State) (now : Nat) (ids : List Nat) (h : s.files.length < 2) :
    merge s now ids = (s, .err) := by
  simp [merge, h]

end NutsProofs.C15
