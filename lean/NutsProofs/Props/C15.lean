/-
  C15 — Merge does not change the logical contents.
  False of the code for lists (and in several other situations, finding family D-MERGE): the witness
  below is the model's own computation, replayed on the implementation by corpus/D-MERGE.ops.
-/
import Nuts.Model.Tx
import NutsProofs.Lemmas.MergeKV
import NutsProofs.Lemmas.MergeReads
import NutsProofs.Lemmas.MergeReopen
import NutsProofs.Facts
import NutsProofs.Pins.Merge
namespace NutsProofs.C15
open Nuts Nuts.Model Nuts.Model.DB

/-- list `[x, y]` in one segment, a KV record in a second one (Merge needs two files) -/
def s0 : State :=
  let a := (commit (openDB { seg := 100 } []).1
    [{ (mkRec [97] [97] [120] flagRPush dsList) with txid := 1 }, { (mkRec [97] [97] [121] flagRPush dsList) with txid := 1 }]).1
  (commit a [{ (mkRec [98] [107] [120] flagSet dsKV) with txid := 2 }]).1

/-- Witness of D-MERGE (lists): the rewrite transaction re-applies the pushes to the live index. -/
theorem C15_witness_list_duplicated :
    (aget? s0.lists [97]).bind (ListDS.get? · [97]) = some [[120], [121]] ∧
    (aget? (merge s0 0 [10, 11]).1.lists [97]).bind (ListDS.get? · [97]) = some [[120], [121], [120], [121]] := by
  decide

/-- Merge never rewrites a record whose flag is a removal or whose TTL has run out. -/
theorem isFilter_removal (r : Rec) (now : Nat)
    (h : r.flag = flagDelete ∨ r.flag = flagLPop ∨ r.flag = flagRPop ∨ r.flag = flagLRem ∨ r.flag = flagLTrim ∨
         r.flag = flagZRem ∨ r.flag = flagZRemRangeByRank ∨ r.flag = flagZPopMax ∨ r.flag = flagZPopMin) :
    isFilter r now = true := by
  unfold isFilter
  rcases h with h | h | h | h | h | h | h | h | h <;> simp [h]

/-- Merge with fewer than two data files refuses and changes nothing. -/
theorem merge_needs_two_files (s : State) (now : Nat) (ids : List Nat) (h : s.files.length < 2) :
    merge s now ids = (s, .err) := by
  simp [merge, h]

/-! ### Merge removes the active file when nothing is live (finding family D-MERGE) -/

/-- three keys written over two segments and then deleted: every record on disk is dead -/
def dead0 : State :=
  let v : Bytes := List.replicate 40 120
  let a := (commit (openDB { seg := 200 } []).1
    [{ (mkRec [97] [107, 49] v flagSet dsKV) with txid := 1 }, { (mkRec [97] [107, 50] v flagSet dsKV) with txid := 1 },
     { (mkRec [97] [107, 51] v flagSet dsKV) with txid := 1 }]).1
  (commit a [{ (mkRec [97] [107, 49] [] flagDelete dsKV) with txid := 2 }, { (mkRec [97] [107, 50] [] flagDelete dsKV) with txid := 2 },
             { (mkRec [97] [107, 51] [] flagDelete dsKV) with txid := 2 }]).1

/-- the state after that Merge and one more committed `Put` -/
def dead1 : State :=
  (commit (merge dead0 0 []).1 [{ (mkRec [97] [107, 52] [122] flagSet dsKV) with txid := 3 }]).1

/-- Witness (replayed on the implementation by corpus/D-MERGE-ACTIVE.ops): a Merge that finds nothing to
rewrite removes every data file, the active one included; the transaction committed afterwards is in
the index but in no file of the directory, and `Open` on that directory does not have the key. -/
theorem C15_witness_active_file_removed :
    dead0.files.length = 3 ∧ (merge dead0 0 []).2 = .ok () ∧ (merge dead0 0 []).1.files = [] ∧
    ((aget? dead1.kv [97]).bind (aget? · [107, 52])).isSome = true ∧ dead1.files = [] ∧
    ((aget? (openDB { seg := 200 } dead1.files).1.kv [97]).bind (aget? · [107, 52])).isSome = false := by
  decide

/-! ### Merge on key/value databases, for every history

`MergeKV.MInv` is the invariant Merge works under: the directory is packed, every record of the files is a
key/value record that fits a segment, every bucket is sorted, the entry of a record's key sits at the record's
position or later, and every entry either addresses a record of the files equal to the one it caches or is
dead with its file gone. States reached by key/value histories have it (`minv_of_logInv`); one file of Merge
keeps it (`mergeSelect_eq`: what is rewritten are exactly the live records that their key's entry points at;
`rewrite_step`: the rewrite transaction re-applies them, each replacing its entry by one with the same visible
content; `remove_step`: the entries left pointing into the removed file are dead ones); `go_spec` is the loop. -/

open NutsProofs.Reopen NutsProofs.KVRefine NutsProofs.Hints NutsProofs.MergeKV in
/-- **C15 (key/value databases, in process, every history).** After any history of key/value write
transactions and reopens, whose records fit the segment size in force, call `Merge` (at any clock value, with
any transaction ids for its rewrites). Then: with fewer than two data files it fails and changes nothing;
otherwise, unless it ends with the active file unlinked (the recorded finding D-MERGE-ACTIVE: no file held a
live record), it succeeds and leaves the index of every bucket with the same keys in the same order and the
same value, timestamp, TTL and flag under each key — so deleted, expired and overwritten records are not
resurrected and nothing live is lost — every entry's transaction committed, and the options unchanged; and the
state it leaves satisfies the invariant again, so the statement applies to a second Merge as well. -/
theorem C15_merge_keeps_kv_index (opt0 : Opts) (ops : List Op) (hok : OpsOk (openDB opt0 []).1 ops)
    (hrec : OpsRecOk ops)
    (hsz : ∀ x ∈ allRecs (ops.foldl stepOp (openDB opt0 []).1).files, ¬ x.1.size > (ops.foldl stepOp (openDB opt0 []).1).opt.seg)
    (now : Nat) (txids : List Nat) :
    let s := ops.foldl stepOp (openDB opt0 []).1
    (s.files.length < 2 → merge s now txids = (s, .err)) ∧
    (¬ s.files.length < 2 → (merge s now txids).1.activeUnlinked = false →
      (merge s now txids).2 = .ok () ∧ MInv (merge s now txids).1 now ∧
      visKV (merge s now txids).1.kv = visKV s.kv ∧
      (∀ id, id ∈ s.committed → id ∈ (merge s now txids).1.committed) ∧
      (merge s now txids).1.opt = s.opt) := by
  intro s
  have hinv : LogInv s := logInv_ops ops _ (logInv_init opt0) hok
  have hpk : Packed s := packed_ops ops _ (logInv_init opt0) (packed_init opt0) hok
  have hlog : (allRecs s.files).map (·.1) = logOf ops := by
    have h0 : (allRecs (openDB opt0 []).1.files).map (·.1) = [] := by simp [openDB, fileEnsure, allRecs]
    have := log_of_ops ops _ (logInv_init opt0) hok
    rw [h0, List.nil_append] at this
    exact this
  have hL : ∀ x ∈ allRecs s.files, RecOk x.1 := by
    intro x hx
    apply logOf_recOk ops hrec
    rw [← hlog]; exact List.mem_map.mpr ⟨x, hx, rfl⟩
  have hmk : MarkedLog (allRecs s.files) := markedLog_ops ops _ (logInv_init opt0) (packed_init opt0) (markedLog_init opt0) hok
  exact merge_spec s now txids (minv_of_logInv s now hinv hpk hL hsz hmk)

open NutsProofs.MergeKV in
/-- … and again: Merge after Merge (the invariant is all the statement needs) -/
theorem C15_merge_again (s : State) (now now' : Nat) (txids : List Nat) (h : MInv s now) (hnow : now = now') :
    ¬ s.files.length < 2 → (merge s now' txids).1.activeUnlinked = false →
      (merge s now' txids).2 = .ok () ∧ visKV (merge s now' txids).1.kv = visKV s.kv := by
  subst hnow
  intro h2 hl
  obtain ⟨h1, _, h3, _, _⟩ := (merge_spec s now txids h).2 h2 hl
  exact ⟨h1, h3⟩

open NutsProofs.Reopen NutsProofs.KVRefine NutsProofs.Hints NutsProofs.MergeKV in
/-- **C15 (reads, key+value mode, every history).** Under the hypotheses of `C15_merge_keeps_kv_index`, in
`HintKeyValAndRAMIdxMode`: after a Merge that succeeded (did not end with the active file unlinked), `Get`,
`GetAll`, `RangeScan`, `PrefixScan` and `PrefixSearchScan` — every bucket, key, range, prefix, offset, limit,
match predicate, and every clock value, earlier or later than the one Merge ran at — return records with the
same value, timestamp, TTL and flag as before it, and fail exactly when they failed before. -/
theorem C15_merge_keeps_kv_reads (opt0 : Opts) (ops : List Op) (hok : OpsOk (openDB opt0 []).1 ops)
    (hrec : OpsRecOk ops)
    (hsz : ∀ x ∈ allRecs (ops.foldl stepOp (openDB opt0 []).1).files, ¬ x.1.size > (ops.foldl stepOp (openDB opt0 []).1).opt.seg)
    (hm : (ops.foldl stepOp (openDB opt0 []).1).opt.mode = 0)
    (now : Nat) (txids : List Nat)
    (h2 : ¬ (ops.foldl stepOp (openDB opt0 []).1).files.length < 2)
    (hl : (merge (ops.foldl stepOp (openDB opt0 []).1) now txids).1.activeUnlinked = false) :
    let s := ops.foldl stepOp (openDB opt0 []).1
    let s' := (merge s now txids).1
    (∀ b k t, showO (DB.get s' b k t) = showO (DB.get s b k t)) ∧
    (∀ b t, showL (getAll s' b t) = showL (getAll s b t)) ∧
    (∀ b st en t, showL (rangeScan s' b st en t) = showL (rangeScan s b st en t)) ∧
    (∀ b pre off lim t mt, showL (prefixScan s' b pre off lim t mt) = showL (prefixScan s b pre off lim t mt)) := by
  intro s s'
  obtain ⟨_, hmerge⟩ := C15_merge_keeps_kv_index opt0 ops hok hrec hsz now txids
  obtain ⟨_, hminv', hvis, _, hopt⟩ := hmerge h2 hl
  -- the invariant before Merge, for the committed entries
  have hinv : LogInv s := logInv_ops ops _ (logInv_init opt0) hok
  have hpk : Packed s := packed_ops ops _ (logInv_init opt0) (packed_init opt0) hok
  have hlog : (allRecs s.files).map (·.1) = logOf ops := by
    have h0 : (allRecs (openDB opt0 []).1.files).map (·.1) = [] := by simp [openDB, fileEnsure, allRecs]
    have := log_of_ops ops _ (logInv_init opt0) hok
    rw [h0, List.nil_append] at this
    exact this
  have hL : ∀ x ∈ allRecs s.files, RecOk x.1 := by
    intro x hx
    apply logOf_recOk ops hrec
    rw [← hlog]; exact List.mem_map.mpr ⟨x, hx, rfl⟩
  have hmk : MarkedLog (allRecs s.files) := markedLog_ops ops _ (logInv_init opt0) (packed_init opt0) (markedLog_init opt0) hok
  have hminv := minv_of_logInv s now hinv hpk hL hsz hmk
  exact reads_of_visKV s s' hm (by show (merge s now txids).1.opt.mode = 0; rw [hopt]; exact hm) hvis
    hminv.committedIdx hminv'.committedIdx

open NutsProofs.Reopen NutsProofs.KVRefine NutsProofs.Hints NutsProofs.MergeKV in
/-- **C15 (Merge, then reopen; key+value mode, every history).** Under the hypotheses of
`C15_merge_keeps_kv_index`: after a successful Merge at clock value `now`, close and `Open` again in key+value
mode. `Open` succeeds, and `Get`, `GetAll`, `RangeScan`, and `PrefixScan` / `PrefixSearchScan` without offset
and limit return at every time `t ≥ now` the values and (key, value) pairs they returned *before the Merge* at
`t`: deleted, expired and overwritten records are not resurrected by the reopen either (the rebuilt index is the
old one minus entries that are dead), nothing live is lost. (Paged scans are not covered: the dead entries that
vanish at the reopen no longer consume offset and limit — finding D-SCAN-DEAD.) -/
theorem C15_merge_then_reopen_keeps_kv_reads (opt0 : Opts) (ops : List Op) (hok : OpsOk (openDB opt0 []).1 ops)
    (hrec : OpsRecOk ops)
    (hsz : ∀ x ∈ allRecs (ops.foldl stepOp (openDB opt0 []).1).files, ¬ x.1.size > (ops.foldl stepOp (openDB opt0 []).1).opt.seg)
    (hm : (ops.foldl stepOp (openDB opt0 []).1).opt.mode = 0)
    (now : Nat) (txids : List Nat)
    (h2 : ¬ (ops.foldl stepOp (openDB opt0 []).1).files.length < 2)
    (hl : (merge (ops.foldl stepOp (openDB opt0 []).1) now txids).1.activeUnlinked = false)
    (opt : Opts) (hmo : opt.mode = 0) (t : Nat) (hle : now ≤ t) (ht : t < 2 ^ 64) (b : Bytes) :
    let s := ops.foldl stepOp (openDB opt0 []).1
    let s2 := (openDB opt (merge s now txids).1.files).1
    (openDB opt (merge s now txids).1.files).2 = .ok () ∧
    (∀ k, (DB.get s2 b k t).map (Option.map (·.value)) = (DB.get s b k t).map (Option.map (·.value))) ∧
    ((getAll s2 b t).map pairsOf = (getAll s b t).map pairsOf) ∧
    (∀ st en, (rangeScan s2 b st en t).map pairsOf = (rangeScan s b st en t).map pairsOf) ∧
    (∀ pre mt, (prefixScan s2 b pre 0 (-1) t mt).map pairsOf = (prefixScan s b pre 0 (-1) t mt).map pairsOf) := by
  intro s s2
  have hinv : LogInv s := logInv_ops ops _ (logInv_init opt0) hok
  have hpk : Packed s := packed_ops ops _ (logInv_init opt0) (packed_init opt0) hok
  have hlog : (allRecs s.files).map (·.1) = logOf ops := by
    have h0 : (allRecs (openDB opt0 []).1.files).map (·.1) = [] := by simp [openDB, fileEnsure, allRecs]
    have := log_of_ops ops _ (logInv_init opt0) hok
    rw [h0, List.nil_append] at this
    exact this
  have hL : ∀ x ∈ allRecs s.files, RecOk x.1 := by
    intro x hx
    apply logOf_recOk ops hrec
    rw [← hlog]; exact List.mem_map.mpr ⟨x, hx, rfl⟩
  have hmk : MarkedLog (allRecs s.files) := markedLog_ops ops _ (logInv_init opt0) (packed_init opt0) (markedLog_init opt0) hok
  have hminv := minv_of_logInv s now hinv hpk hL hsz hmk
  obtain ⟨_, hminv1, hvis, _, hopt⟩ := (merge_spec s now txids hminv).2 h2 hl
  have hm1 : (merge s now txids).1.opt.mode = 0 := by rw [hopt]; exact hm
  obtain ⟨a1, a2, a3, a4⟩ := reads_of_vis_minv s (merge s now txids).1 now hminv hminv1 hm hm1 hvis t ht b
  obtain ⟨hok2, b1, b2, b3, b4⟩ := reads_after_reopen (merge s now txids).1 now hminv1 hm1 opt hmo t hle ht b
  exact ⟨hok2, fun k => by rw [b1 k, a1 k], by rw [b2, a2], fun st en => by rw [b3 st en, a3 st en],
    fun pre mt => by rw [b4 pre mt, a4 pre mt]⟩

instance : DecidableEq (Bytes × (Bytes × Nat × Nat × Nat)) := inferInstance
instance : DecidableEq (List (Bytes × (Bytes × Nat × Nat × Nat))) := inferInstance
instance : DecidableEq (Bytes × List (Bytes × (Bytes × Nat × Nat × Nat))) := inferInstance
instance : DecidableEq (List (Bytes × List (Bytes × (Bytes × Nat × Nat × Nat)))) := inferInstance

/-- `Put(bucket a, key k, 16 bytes)` with transaction id `id` (60 bytes on disk) -/
def wPut (id k : Nat) : List Rec := [{ (mkRec [97] [k.toUInt8] (List.replicate 16 120) flagSet dsKV) with txid := id }]

open NutsProofs.Reopen NutsProofs.MergeKV in
/-- the theorem is not about nothing: three transactions over 100-byte segments leave three files, key 1
overwritten; Merge succeeds, keeps the active file linked, rewrites into new files — and the visible index is
the same (checked here by evaluating the model, as the theorem says it must be) -/
theorem C15_witness_merge :
    let ops := [Op.commit (wPut 1 1), .commit (wPut 2 2), .commit (wPut 3 1)]
    let s := ops.foldl stepOp (openDB { seg := 100 } []).1
    s.files.map (·.fid) = [0, 1, 2] ∧ (merge s 5 [10, 11, 12]).2 = .ok () ∧
    (merge s 5 [10, 11, 12]).1.activeUnlinked = false ∧
    (merge s 5 [10, 11, 12]).1.files.map (·.fid) = [3, 4] ∧
    visKV (merge s 5 [10, 11, 12]).1.kv = visKV s.kv := by
  intro ops s
  refine ⟨by decide +kernel, by decide +kernel, by decide +kernel, by decide +kernel, by decide +kernel⟩

/-- **regenerated tie of the record filter.** Which records Merge drops is decided by `isFilter`; the model's
`isFilter` is, for every record and every clock, the kernel regenerated from `DB.isFilterEntry` on this run
(`NutsProofs.Facts.isFilter_is_kernel`). The Merge theorems above are therefore about the filter the code has
now: a flag added to or removed from `isFilterEntry`, or a changed expiry test, breaks this obligation. -/
theorem C15_filter_is_regenerated (r : Rec) (now : Nat) :
    isFilter r now =
      ((NutsGen.K.db_isFilterEntry.run r.flag r.ttl r.ts (isExpired r.ttl r.ts now)
          r.flag r.flag r.flag r.flag r.flag r.flag r.flag r.flag).vals == [1]) :=
  NutsProofs.Facts.isFilter_is_kernel r now


/-- **regenerated tie.** `Merge`, its selection of the records to rewrite (filter, superseded test, per-structure liveness test), the rewrite transaction and the removal of the merged file are, on this run, the source lines the model of Merge was written from (`NutsProofs.Facts.expectedMergeStmts`). -/
theorem C15_merge_statements_regenerated : NutsGen.F.mergeStmts = NutsProofs.Facts.expectedMergeStmts :=
  NutsProofs.Facts.merge_stmts_ok

end NutsProofs.C15
