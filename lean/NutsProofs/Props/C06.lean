/-
  C06 — Sets behave like mathematical sets (the `ds/set` model against membership semantics).
-/
import Nuts.Model.Tx
import NutsProofs.Lemmas.Isolation
import NutsProofs.Pins.SetDS
import NutsProofs.Pins.TxApi
import NutsProofs.Pins.TxApiSet
namespace NutsProofs.C06
open Nuts Nuts.Model Nuts.Model.SetDS

theorem get_put_self (s : St) (k : Bytes) (v : List Bytes) : get? (put s k v) k = some v := by
  induction s with
  | nil => simp [put, get?]
  | cons p rest ih =>
    obtain ⟨k', v'⟩ := p
    by_cases h : k' = k <;> simp [put, get?, h, ih]

theorem get_put_other (s : St) (k k' : Bytes) (v : List Bytes) (h : k' ≠ k) : get? (put s k v) k' = get? s k' := by
  induction s with
  | nil => simp [put, get?, Ne.symm h]
  | cons p rest ih =>
    obtain ⟨k0, v0⟩ := p
    by_cases h0 : k0 = k
    · subst h0; simp [put, get?, Ne.symm h]
    · by_cases h1 : k0 = k'
      · subst h1; simp [put, get?, h0]
      · simp [put, get?, h0, h1, ih]

theorem mem_insert (m : List Bytes) (x y : Bytes) : y ∈ insert m x ↔ y ∈ m ∨ y = x := by
  unfold SetDS.insert
  split
  · rename_i h
    constructor
    · intro hy; exact Or.inl hy
    · rintro (hy | hy)
      · exact hy
      · subst hy; simpa using h
  · simp

theorem nodup_insert (m : List Bytes) (x : Bytes) (h : m.Nodup) : (insert m x).Nodup := by
  unfold SetDS.insert
  split
  · exact h
  · rename_i hx
    rw [List.nodup_append]
    refine ⟨h, by simp, ?_⟩
    intro a ha b hb
    simp at hb; subst hb
    intro hab; subst hab
    exact hx (by simpa using ha)

theorem mem_foldl_insert (items m : List Bytes) (y : Bytes) : y ∈ items.foldl insert m ↔ y ∈ m ∨ y ∈ items := by
  induction items generalizing m with
  | nil => simp
  | cons x rest ih => rw [List.foldl_cons, ih, mem_insert, List.mem_cons, or_assoc]

theorem nodup_foldl_insert (items m : List Bytes) (h : m.Nodup) : (items.foldl insert m).Nodup := by
  induction items generalizing m with
  | nil => exact h
  | cons x rest ih => exact ih _ (nodup_insert m x h)

/-- **SAdd**: afterwards the set at `k` is the union of the old set and the items; other keys are
untouched; no duplicates appear. -/
theorem sadd_spec (s : St) (k : Bytes) (items : List Bytes) (y : Bytes) :
    (y ∈ (get? (sadd s k items) k).getD [] ↔ y ∈ (get? s k).getD [] ∨ y ∈ items) ∧
    (∀ k', k' ≠ k → get? (sadd s k items) k' = get? s k') := by
  constructor
  · simp [sadd, get_put_self, mem_foldl_insert]
  · intro k' h; simp [sadd, get_put_other _ _ _ _ h]

theorem sadd_nodup (s : St) (k : Bytes) (items : List Bytes) (h : ((get? s k).getD []).Nodup) :
    ((get? (sadd s k items) k).getD []).Nodup := by
  simp [sadd, get_put_self, nodup_foldl_insert _ _ h]

/-- **SRem** (guard of finding D-SREM-EMPTY: the first item is not empty; the set exists):
afterwards exactly the items are gone. -/
theorem srem_spec_partial (s : St) (k : Bytes) (m items : List Bytes) (i0 : Bytes) (rest : List Bytes)
    (hk : get? s k = some m) (hi : items = i0 :: rest) (hne : i0 ≠ []) (y : Bytes) :
    (srem s k items).2 = .ok () ∧
    (y ∈ (get? (srem s k items).1 k).getD [] ↔ y ∈ m ∧ y ∉ items) := by
  have he : i0.isEmpty = false := by cases i0 <;> simp_all
  subst hi
  simp [srem, hk, he, get_put_self]

/-- Witness of D-SREM-EMPTY: the empty member cannot be removed. -/
theorem C06_witness_srem_empty :
    (srem [([107], [[], [1]])] [107] [[]]) = ([([107], [[], [1]])], .err) := by decide

/-- **SPop** returns a member and removes exactly it. -/
theorem spop_spec (s : St) (k : Bytes) (m : List Bytes) (x : Bytes) (hk : get? s k = some m) (hx : x ∈ m) (y : Bytes) :
    (spop s k (some x)).2 = some x ∧
    (y ∈ (get? (spop s k (some x)).1 k).getD [] ↔ y ∈ m ∧ y ≠ x) := by
  simp [spop, hk, hx, get_put_self]

/-- Witness of D-SMOVE (semantics): moving a value that is NOT a member of the source still adds
it to the destination. -/
theorem C06_witness_smove_nonmember :
    (smove [([1], [[7]]), ([2], [[8]])] [1] [2] [9]).1 = [([1], [[7]]), ([2], [[8], [9]])] := by decide

/-! ### sets through transactions: every history -/

open Nuts.Model.DB

/-- the members a set key holds (a missing key holds none) -/
def membersOf (m : St) (k : Bytes) : List Bytes := (get? m k).getD []

/-- what one committed set record does to the members of its key: `SAdd` inserts the member unless it is
there, `SRem` / `SPop` take it out (the empty member cannot be removed: finding D-SREM-EMPTY) -/
def setStep (mem : List Bytes) (r : Rec) : List Bytes :=
  if r.flag == flagSet then SetDS.insert mem r.value
  else if r.flag == flagDelete then (if r.value.isEmpty then mem else mem.filter fun y => y ≠ r.value)
  else mem

theorem applySet_members (m : St) (r : Rec) (k : Bytes) :
    membersOf (applySet m r).1 k = if r.key = k then setStep (membersOf m k) r else membersOf m k := by
  unfold applySet setStep membersOf
  by_cases hd : (r.flag == flagDelete) = true
  · have hs : (r.flag == flagSet) = false := by
      have : r.flag = flagDelete := by simpa using hd
      rw [this]; decide
    simp only [hd, hs, if_true, Bool.false_eq_true, if_false]
    unfold SetDS.srem
    cases hg : get? m r.key with
    | none =>
      simp only
      by_cases hk : r.key = k
      · subst hk; simp [hg]
      · simp [hk]
    | some mem =>
      simp only
      by_cases he : r.value.isEmpty = true
      · simp only [he, if_true]
        by_cases hk : r.key = k
        · subst hk; simp [hg]
        · simp [hk]
      · simp only [he, Bool.false_eq_true, if_false]
        by_cases hk : r.key = k
        · subst hk
          rw [get_put_self, hg]
          simp only [if_true, Option.getD_some]
          apply List.filter_congr
          intro y _
          by_cases hy : y = r.value <;> simp [hy]
        · rw [get_put_other _ _ _ _ (fun e => hk e.symm)]
          simp [hk]
  · simp only [hd, Bool.false_eq_true, if_false]
    by_cases hs : (r.flag == flagSet) = true
    · simp only [hs, if_true]
      unfold SetDS.sadd
      by_cases hk : r.key = k
      · subst hk
        rw [get_put_self]
        simp [List.foldl]
      · rw [get_put_other _ _ _ _ (fun e => hk e.symm)]
        simp [hk]
    · simp only [hs, Bool.false_eq_true, if_false]
      split <;> rfl

open NutsProofs.ReopenAll NutsProofs.Isolation in
/-- the set structure of one bucket after a log: per key, the fold of `setStep` over the bucket's set records
with that key, in log order -/
theorem foldSV_sets (rs : List Rec) (v : SV) (b k : Bytes) (c : Bool) (hb : ∀ r ∈ rs, r.bucket = b) :
    membersOf ((aget? (foldSV v rs c).sets b).getD []) k =
      (rs.filter fun r => r.ds == dsSet && r.key == k).foldl setStep (membersOf ((aget? v.sets b).getD []) k) := by
  induction rs generalizing v with
  | nil => rfl
  | cons r rest ih =>
    have hrb : r.bucket = b := hb r (List.mem_cons_self ..)
    simp only [foldSV, List.foldl_cons]
    have := ih (stepSV v r c).1 (fun x hx => hb x (List.mem_cons_of_mem _ hx))
    simp only [foldSV] at this
    rw [this]
    by_cases hds : (r.ds == dsSet) = true
    · have hstep : (aget? (stepSV v r c).1.sets b).getD [] = (applySet ((aget? v.sets b).getD []) r).1 := by
        simp only [stepSV, hds, if_true, hrb, aget_aput_self, Option.getD_some]
      rw [hstep, applySet_members]
      by_cases hk : r.key = k
      · subst hk
        have hf : (r.ds == dsSet && r.key == r.key) = true := by simp [hds]
        rw [if_pos rfl, List.filter_cons, if_pos hf, List.foldl_cons]
      · have hf : (r.ds == dsSet && r.key == k) = false := by simp [hk]
        rw [if_neg hk, List.filter_cons, hf]
        simp only [Bool.false_eq_true, if_false]
    · have hf : (r.ds == dsSet && r.key == k) = false := by simp [hds]
      simp only [List.filter_cons, hf, Bool.false_eq_true, if_false]
      have hsets : (stepSV v r c).1.sets = v.sets := by
        simp only [stepSV, hds, Bool.false_eq_true, if_false]
        split
        · rfl
        · split <;> rfl
      rw [hsets]

open NutsProofs.Reopen NutsProofs.ReopenAll NutsProofs.Isolation in
/-- **C06, sets through transactions, every history.** After any history of successfully committed
transactions over all four structures, with reopens (key+value mode), the members of set `k` of bucket `b` are
what the committed `SAdd` / `SRem` / `SPop` records of that bucket and key produce, applied in commit order to
the empty set: insertion unless present, removal — whatever other buckets, keys and structures did in between.
(`SMove*` write no record: finding D-SMOVE.) -/
theorem C06_sets_after_every_history (opt0 : Opts) (ops : List OpA) (hok : OpsOkA (openDB opt0 []).1 ops) (b k : Bytes) :
    let s := ops.foldl stepA (openDB opt0 []).1
    membersOf ((aget? s.sets b).getD []) k =
      (((allRecs s.files).map (·.1)).filter fun r => r.bucket == b && (r.ds == dsSet && r.key == k)).foldl setStep [] := by
  intro s
  have hinv : AllInv s := allInv_ops ops _ (allInv_init opt0) hok
  have hsv : (sv s).sets = s.sets := rfl
  have hproj := foldSV_project ((allRecs s.files).map (·.1)) emptySV emptySV b false rfl
  have hsets : aget? s.sets b = aget? (foldSV emptySV (((allRecs s.files).map (·.1)).filter fun r => r.bucket == b) false).sets b := by
    have := congrArg (·.2.1) hproj
    simp only [viewSV] at this
    rw [← hsv, hinv.structs]; exact this
  rw [hsets, foldSV_sets _ emptySV b k false (by
    intro r hr
    have := (List.mem_filter.mp hr).2
    simpa using this)]
  simp only [List.filter_filter]
  have e0 : membersOf ((aget? emptySV.sets b).getD []) k = [] := rfl
  rw [e0]
  congr 1
  apply List.filter_congr
  intro x _
  exact Bool.and_comm _ _

/-- … and those members never contain a duplicate -/
theorem setStep_nodup (mem : List Bytes) (r : Rec) (h : mem.Nodup) : (setStep mem r).Nodup := by
  unfold setStep
  split
  · exact nodup_insert mem r.value h
  · split
    · split
      · exact h
      · exact List.Nodup.sublist List.filter_sublist h
    · exact h

/-- **regenerated tie.** On this run, the set calls of the transactional API (`sPut` one record per member, `SPop`, the two-set reads and moves) and `tx.put` are the source lines `Nuts.Model.Tx` was written from (`NutsProofs.Facts.expectedTxApiCore`, `expectedTxApiSet`). -/
theorem C06_tx_api_regenerated :
    NutsProofs.Facts.txApiOfCore = NutsProofs.Facts.expectedTxApiCore ∧
    NutsProofs.Facts.txApiOfSet = NutsProofs.Facts.expectedTxApiSet :=
  ⟨NutsProofs.Facts.tx_api_core_ok, NutsProofs.Facts.tx_api_set_ok⟩

/-- **regenerated tie.** every condition, loop and call of ds/set/set.go is, on this run, the source `Nuts.Model.SetDS` was written from (`NutsProofs.Facts.expectedSetStmts`). -/
theorem C06_set_statements_regenerated : NutsGen.F.setStmts = NutsProofs.Facts.expectedSetStmts :=
  NutsProofs.Facts.set_stmts_ok

end NutsProofs.C06
