/-
  C06 — Sets behave like mathematical sets (the `ds/set` model against membership semantics).
-/
import Nuts.Model.Tx
namespace NutsProofs.C06
open Nuts Nuts.Model Nuts.Model.SetDS

theorem get_put_self (s : St) (k : Bytes) (v : List Bytes) : get? (put s k v) k = some v := by
  induction s with
  | nil => simp [put, get?]
  | cons p rest ih =>
    obtain ⟨k', v'⟩ := p
    by_cases h : k' = k <;> simp [put, get?, h, ih]

theorem get_put_other (s : St) (k k' : Bytes) (v : List Bytes) (h : k' ≠ k) : get? (put s k v) k' = get? s k' := by
  induction s with
  | nil => simp [put, get?, Ne.symm h]
  | cons p rest ih =>
    obtain ⟨k0, v0⟩ := p
    by_cases h0 : k0 = k
    · subst h0; simp [put, get?, Ne.symm h]
    · by_cases h1 : k0 = k'
      · subst h1; simp [put, get?, h0]
      · simp [put, get?, h0, h1, ih]

theorem mem_insert (m : List Bytes) (x y : Bytes) : y ∈ insert m x ↔ y ∈ m ∨ y = x := by
  unfold SetDS.insert
  split
  · rename_i h
    constructor
    · intro hy; exact Or.inl hy
    · rintro (hy | hy)
      · exact hy
      · subst hy; simpa using h
  · simp

theorem nodup_insert (m : List Bytes) (x : Bytes) (h : m.Nodup) : (insert m x).Nodup := by
  unfold SetDS.insert
  split
  · exact h
  · rename_i hx
    rw [List.nodup_append]
    refine ⟨h, by simp, ?_⟩
    intro a ha b hb
    simp at hb; subst hb
    intro hab; subst hab
    exact hx (by simpa using ha)

theorem mem_foldl_insert (items m : List Bytes) (y : Bytes) : y ∈ items.foldl insert m ↔ y ∈ m ∨ y ∈ items := by
  induction items generalizing m with
  | nil => simp
  | cons x rest ih => rw [List.foldl_cons, ih, mem_insert, List.mem_cons, or_assoc]

theorem nodup_foldl_insert (items m : List Bytes) (h : m.Nodup) : (items.foldl insert m).Nodup := by
  induction items generalizing m with
  | nil => exact h
  | cons x rest ih => exact ih _ (nodup_insert m x h)

/-- **SAdd**: afterwards the set at `k` is the union of the old set and the items; other keys are
untouched; no duplicates appear. -/
theorem sadd_spec (s : St) (k : Bytes) (items : List Bytes) (y : Bytes) :
    (y ∈ (get? (sadd s k items) k).getD [] ↔ y ∈ (get? s k).getD [] ∨ y ∈ items) ∧
    (∀ k', k' ≠ k → get? (sadd s k items) k' = get? s k') := by
  constructor
  · simp [sadd, get_put_self, mem_foldl_insert]
  · intro k' h; simp [sadd, get_put_other _ _ _ _ h]

theorem sadd_nodup (s : St) (k : Bytes) (items : List Bytes) (h : ((get? s k).getD []).Nodup) :
    ((get? (sadd s k items) k).getD []).Nodup := by
  simp [sadd, get_put_self, nodup_foldl_insert _ _ h]

/-- **SRem** (guard of finding D-SREM-EMPTY: the first item is not empty; the set exists):
afterwards exactly the items are gone. -/
theorem srem_spec_partial (s : St) (k : Bytes) (m items : List Bytes) (i0 : Bytes) (rest : List Bytes)
    (hk : get? s k = some m) (hi : items = i0 :: rest) (hne : i0 ≠ []) (y : Bytes) :
    (srem s k items).2 = .ok () ∧
    (y ∈ (get? (srem s k items).1 k).getD [] ↔ y ∈ m ∧ y ∉ items) := by
  have he : i0.isEmpty = false := by cases i0 <;> simp_all
  subst hi
  simp [srem, hk, he, get_put_self]

/-- Witness of D-SREM-EMPTY: the empty member cannot be removed. -/
theorem C06_witness_srem_empty :
    (srem [([107], [[], [1]])] [107] [[]]) = ([([107], [[], [1]])], .err) := by decide

/-- **SPop** returns a member and removes exactly it. -/
theorem spop_spec (s : St) (k : Bytes) (m : List Bytes) (x : Bytes) (hk : get? s k = some m) (hx : x ∈ m) (y : Bytes) :
    (spop s k (some x)).2 = some x ∧
    (y ∈ (get? (spop s k (some x)).1 k).getD [] ↔ y ∈ m ∧ y ≠ x) := by
  simp [spop, hk, hx, get_put_self]

/-- Witness of D-SMOVE (semantics): moving a value that is NOT a member of the source still adds
it to the destination. -/
theorem C06_witness_smove_nonmember :
    (smove [([1], [[7]]), ([2], [[8]])] [1] [2] [9]).1 = [([1], [[7]]), ([2], [[8], [9]])] := by decide

end NutsProofs.C06
