/-
  Property C22 — opening with an incompatible index mode is refused.

  Model: Nuts.Model.Dir (directory listings; `refuses` = the decision of `checkEntryIdxMode`, whose two
  conditions and whose position in `Open` are regenerated facts) and Nuts.Model.DB (`openDB`).

  Proved for **every** directory the library can produce in one mode (all histories, merges and crash
  points: reachability is over single listing mutations):
    * a directory produced in sparse mode that holds a data file is refused by both RAM modes, and the
      refused `Open` leaves the listing as it was — `C22_refuse_ram_on_sparse`;
    * a directory produced in a RAM mode that holds a data file is refused by sparse mode, unchanged —
      `C22_refuse_sparse_on_ram`;
    * the mode that produced a directory, and the other RAM mode, are always accepted —
      `C22_ram_accepts_ram`, `C22_sparse_accepts_sparse`;
    * switching between the two RAM modes on key/value data rebuilds exactly the same index from the same
      files — `C22_ram_switch_same_index`.
-/
import Nuts.Model.Dir
import Nuts.Model.DB
import NutsProofs.Facts
import NutsProofs.Pins.Modes
namespace NutsProofs.C22
open Nuts Nuts.Model.Dir

/-! ### invariants of the listings each mode produces -/

theorem ram_never_bpt {d : Dir} (h : RamReach d) : d.bpt = false := by
  induction h with
  | empty => rfl
  | step _ st ih => cases st <;> exact ih

theorem sparse_dat_implies_bpt {d : Dir} (h : SparseReach d) : hasDat d = true → d.bpt = true := by
  induction h with
  | empty => intro h; simp [hasDat] at h
  | step _ st ih =>
    cases st with
    | mkBpt _ => intro _; rfl
    | mkDat fid hb => intro _; exact hb

/-! ### the property -/

/-- **Sparse-mode data is refused by the RAM modes, and the directory is left unchanged.** -/
theorem C22_refuse_ram_on_sparse {d : Dir} (h : SparseReach d) (hd : hasDat d = true) (mode : Nat) (hm : isSparse mode = false) :
    openDir mode d = (false, d) := by
  have hb := sparse_dat_implies_bpt h hd
  simp [openDir, refuses, hm, hd, hb]

/-- **RAM-mode data is refused by sparse mode, and the directory is left unchanged.** -/
theorem C22_refuse_sparse_on_ram {d : Dir} (h : RamReach d) (hd : hasDat d = true) :
    openDir 2 d = (false, d) := by
  have hb := ram_never_bpt h
  simp [openDir, refuses, isSparse, hd, hb]

/-- A directory produced in a RAM mode is accepted by both RAM modes (the switch is allowed) … -/
theorem C22_ram_accepts_ram {d : Dir} (h : RamReach d) (mode : Nat) (hm : isSparse mode = false) :
    (openDir mode d).1 = true := by
  have hb := ram_never_bpt h
  simp [openDir, refuses, hm, hb]

/-- … and one produced in sparse mode by sparse mode. -/
theorem C22_sparse_accepts_sparse {d : Dir} (h : SparseReach d) : (openDir 2 d).1 = true := by
  have hb := sparse_dat_implies_bpt h
  unfold openDir refuses
  cases hd : hasDat d
  · simp [isSparse]
  · simp [isSparse, hb hd]

/-- an accepted `Open` never removes a data file and never removes `bpt/` -/
theorem openDir_monotone (mode : Nat) (d : Dir) : (∀ f ∈ d.dats, f ∈ (openDir mode d).2.dats) ∧ (d.bpt = true → (openDir mode d).2.bpt = true) := by
  unfold openDir
  split
  · exact ⟨fun _ h => h, fun h => h⟩
  · constructor
    · intro f hf
      simp only
      split
      · rename_i he; simp [List.isEmpty_iff.mp he] at hf
      · exact hf
    · intro h; simp [h]

/-- the decision is the one in the source: the two refusal conditions and the position of the check
(before any directory or file is created) as regenerated from /repo -/
theorem C22_decision_as_coded :
    NutsGen.F.modeRefusals = ["db.opt.EntryIdxMode != HintBPTSparseIdxMode && hasDataFlag && hasBptDirFlag",
                              "db.opt.EntryIdxMode == HintBPTSparseIdxMode && hasBptDirFlag == false && hasDataFlag == true"] ∧
    NutsGen.F.openOrder = ["mkdir db.opt.Dir", "check", "mkdir bptRootIdxDir", "mkdir bptTxIDIdxDir", "mkdir bucketMetaDir", "buildIndexes"] ∧
    NutsProofs.Facts.lookup NutsGen.F.consts "HintBPTSparseIdxMode" = some 2 :=
  ⟨NutsProofs.Facts.mode_refusals_ok, NutsProofs.Facts.open_check_first, by decide⟩

/-! ### RAM ↔ RAM switch: the same index is rebuilt -/

open Nuts.Model.DB in
/-- two states that differ in their options only -/
def SameButOpt (a b : Nuts.Model.DB.State) : Prop :=
  a.files = b.files ∧ a.kv = b.kv ∧ a.lists = b.lists ∧ a.sets = b.sets ∧ a.zsets = b.zsets ∧ a.committed = b.committed ∧
  a.activeFid = b.activeFid ∧ a.hintFid = b.hintFid ∧ a.writeOff = b.writeOff ∧ a.actualSize = b.actualSize

open Nuts.Model.DB in
theorem replay_kv_mode_independent (rs : List (Rec × Nat × Nat)) (ids : List Nat) (a b : State)
    (hkv : ∀ x ∈ rs, x.1.ds = dsKV) (hab : SameButOpt a b) :
    SameButOpt (replay a rs ids).1 (replay b rs ids).1 ∧ (replay a rs ids).2 = (replay b rs ids).2 := by
  induction rs generalizing a b with
  | nil => exact ⟨hab, rfl⟩
  | cons x rest ih =>
    obtain ⟨r, fid, pos⟩ := x
    have hr : r.ds = dsKV := hkv (r, fid, pos) (by simp)
    have hrest : ∀ x ∈ rest, x.1.ds = dsKV := fun x hx => hkv x (by simp [hx])
    simp only [replay]
    split
    · exact ih a b hrest hab
    · simp only [hr, beq_self_eq_true, ↓reduceIte]
      apply ih _ _ hrest
      obtain ⟨h1, h2, h3, h4, h5, h6, h7, h8, h9, h10⟩ := hab
      refine ⟨h1, ?_, h3, h4, h5, h6, h7, h8, h9, h10⟩
      simp [applyKV, h2]

open Nuts.Model.DB in
/-- **Switching between the two RAM index modes on key/value data shows the same contents**: `Open` on the
same files rebuilds the same key/value index (same records, same hints), the same set of committed
transactions and the same write position, whatever the two option sets are, as long as both are RAM modes
— indeed for any two option sets: nothing in the replay of key/value records looks at the options. -/
theorem C22_ram_switch_same_index (o1 o2 : Opts) (fs : List File)
    (hkv : ∀ x ∈ allRecs (fileEnsure fs ((fs.map (·.fid)).foldl max 0)), x.1.ds = dsKV) :
    SameButOpt (openDB o1 fs).1 (openDB o2 fs).1 ∧ (openDB o1 fs).2 = (openDB o2 fs).2 := by
  unfold openDB
  simp only
  split
  · exact ⟨⟨rfl, rfl, rfl, rfl, rfl, rfl, rfl, rfl, rfl, rfl⟩, rfl⟩
  · split
    · exact ⟨⟨rfl, rfl, rfl, rfl, rfl, rfl, rfl, rfl, rfl, rfl⟩, rfl⟩
    · exact replay_kv_mode_independent _ _ _ _ hkv ⟨rfl, rfl, rfl, rfl, rfl, rfl, rfl, rfl, rfl, rfl⟩

/-! ### non-vacuity: concrete reachable directories -/

example : SparseReach { dats := [0], bpt := true } :=
  .step (.step .empty (.mkBpt {} (by decide))) (.mkDat { bpt := true } 0 rfl)

example : RamReach { dats := [1, 0], bpt := false } :=
  .step (.step .empty (.mkDat {} 0)) (.mkDat { dats := [0] } 1)

example : openDir 0 { dats := [0], bpt := true } = (false, { dats := [0], bpt := true }) := by decide
example : openDir 2 { dats := [1, 0], bpt := false } = (false, { dats := [1, 0], bpt := false }) := by decide
example : openDir 1 { dats := [1, 0], bpt := false } = (true, { dats := [1, 0], bpt := false }) := by decide

end NutsProofs.C22
