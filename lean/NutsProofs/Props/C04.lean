/-
  C04 — Buckets are isolated namespaces (RAM index modes).
  Frame theorems on the model: a commit whose records all target buckets other than `b'` leaves every
  read on `b'` unchanged, for KV, list, set and sorted-set buckets, whatever the names are (the indexes
  are maps keyed by the whole bucket name; nothing is concatenated in these modes).
-/
import Nuts.Model.Tx
import NutsProofs.Lemmas.Assoc
import NutsProofs.Lemmas.Isolation
namespace NutsProofs.C04
open Nuts Nuts.Model Nuts.Model.DB NutsProofs

/-- the part of the state that reads on bucket `b` of a key+value-mode database depend on -/
structure View where
  kv : Option (Assoc Idx)
  list : Option ListDS.St
  set : Option SetDS.St
  zset : Option ZSetA.St
  deriving DecidableEq

def view (s : State) (b : Bytes) : View := ⟨aget? s.kv b, aget? s.lists b, aget? s.sets b, aget? s.zsets b⟩

theorem applyKV_view (s : State) (r : Rec) (fid pos : Nat) (b : Bytes) (h : b ≠ r.bucket) :
    view (applyKV s r fid pos) b = view s b := by
  simp [view, applyKV, aget_aput_other _ _ _ _ h]

theorem applyOther_view (s : State) (r : Rec) (c : Bool) (b : Bytes) (h : b ≠ r.bucket) :
    view (applyOther s r c).1 b = view s b := by
  unfold applyOther
  split
  · simp [view, aget_aput_other _ _ _ _ h]
  · split
    · simp [view, aget_aput_other _ _ _ _ h]
    · split
      · simp [view, aget_aput_other _ _ _ _ h]
      · rfl

theorem view_congr (s s' : State) (b : Bytes) (h1 : s'.kv = s.kv) (h2 : s'.lists = s.lists)
    (h3 : s'.sets = s.sets) (h4 : s'.zsets = s.zsets) : view s' b = view s b := by
  simp [view, h1, h2, h3, h4]

theorem preRotate_view (s : State) (r : Rec) (b : Bytes) : view (preRotate s r) b = view s b := by
  unfold preRotate; split <;> rfl

theorem markLast_bucket (r : Rec) (last : Bool) : (markLast r last).bucket = r.bucket := by
  cases last <;> rfl

theorem writeRec_view (s : State) (r : Rec) (last : Bool) (b : Bytes) (h : b ≠ r.bucket) :
    view (writeRec s r last) b = view s b := by
  have hb : b ≠ (markLast r last).bucket := by rw [markLast_bucket]; exact h
  unfold writeRec
  simp only
  split
  · rw [applyKV_view _ _ _ _ _ hb]
    rw [← preRotate_view s r b]
    cases last <;> rfl
  · rw [← preRotate_view s r b]
    cases last <;> rfl

/-- the write loop of Commit does not touch the view of a bucket none of its records names -/
theorem commitLoop_view (recs : List Rec) (s : State) (b : Bytes) (h : ∀ r ∈ recs, b ≠ r.bucket) :
    view (commitLoop s recs).1 b = view s b := by
  induction recs generalizing s with
  | nil => rfl
  | cons r rest ih =>
    have hr : b ≠ r.bucket := h r (by simp)
    have hrest : ∀ r ∈ rest, b ≠ r.bucket := fun x hx => h x (by simp [hx])
    simp only [commitLoop]
    split
    · rfl
    · rw [ih _ hrest, writeRec_view s r _ b hr]

theorem buildIdxes_view (recs : List Rec) (s : State) (b : Bytes) (h : ∀ r ∈ recs, b ≠ r.bucket) :
    view (buildIdxes s recs).1 b = view s b := by
  induction recs generalizing s with
  | nil => rfl
  | cons r rest ih =>
    have hr : b ≠ r.bucket := h r (by simp)
    have hrest : ∀ r ∈ rest, b ≠ r.bucket := fun x hx => h x (by simp [hx])
    simp only [buildIdxes]
    split
    · exact applyOther_view s r true b hr
    · rw [ih _ hrest, applyOther_view s r true b hr]

/-- **C04 (RAM modes, frame).** A Commit — successful, failing half-way or panicking — whose records all
name buckets different from `b` leaves the KV index, the list, the set and the sorted set of bucket
`b` exactly as they were, for every bucket name (prefixes of each other, empty, equal to keys). -/
theorem C04_frame_ram (s : State) (recs : List Rec) (b : Bytes) (h : ∀ r ∈ recs, b ≠ r.bucket) :
    view (commit s recs).1 b = view s b := by
  unfold commit
  split
  · rfl
  · have h1 := commitLoop_view recs s b h
    generalize commitLoop s recs = p at h1 ⊢
    obtain ⟨s1, fine⟩ := p
    have h2 := buildIdxes_view recs s1 b h
    cases fine
    · simpa using h1
    · simp only [Bool.not_true, Bool.false_eq_true, ↓reduceIte]
      split <;> (simp only []; rw [h2, h1])

/-- scans of bucket `b` are functions of its view (and of the options): equal views, equal results -/
theorem getAll_of_view (s s' : State) (b : Bytes) (now : Nat) (hm : s.opt.mode = 0) (hm' : s'.opt.mode = 0)
    (h : view s b = view s' b) : getAll s b now = getAll s' b now := by
  have hk : aget? s.kv b = aget? s'.kv b := by simpa [view] using congrArg View.kv h
  unfold getAll bucketIdx
  rw [hk]
  cases aget? s'.kv b with
  | none => rfl
  | some m =>
    simp only
    have : ∀ (l : List Idx) (acc : List (Option Rec)), wrapper s l (-1) now acc = wrapper s' l (-1) now acc := by
      intro l
      induction l with
      | nil => intro acc; rfl
      | cons i rest ih => intro acc; simp [wrapper, fetch, hm, hm', ih]
    rw [this]

/-- non-vacuity: two buckets whose names are prefixes of each other, a commit on one of them -/
example : view (commit {} [mkRec [97, 98] [99] [1] flagSet dsKV]).1 [97] = view {} [97] := by decide

/-! ### history level: a bucket is a function of its own records (`Lemmas/Isolation.lean`) -/

open NutsProofs.Reopen NutsProofs.ReopenAll NutsProofs.Isolation in
/-- **C04, every history, every structure.** After any history of successful commits over key/value pairs,
lists, sets and sorted sets, with reopens (key+value mode), what bucket `b` holds — the keys and cached
records of its key/value index, its list, set and sorted-set structures — is what the records of the log that
name `b` produce *on their own*, in their order: every record of every other bucket can be deleted from the
history without a trace in `b`. The only relation between bucket names used is `≠` on whole byte strings, so
prefixes, the empty name and coinciding bucket+key concatenations are covered. (`normKV` sets the status
field of the cached records to Committed, as recovery does; no read looks at that field.) -/
theorem C04_bucket_is_function_of_own_records (opt0 : Opts) (ops : List OpA) (hok : OpsOkA (openDB opt0 []).1 ops)
    (b : Bytes) :
    let s := ops.foldl stepA (openDB opt0 []).1
    let own := ((allRecs s.files).map (·.1)).filter fun r => r.bucket == b
    recsOf ((aget? (normKV s.kv) b).getD []) = bucketOfRecs [] (own.filter fun r => r.ds == dsKV) ∧
    viewSV (sv s) b = viewSV (foldSV emptySV own false) b := by
  intro s own
  have hinv : AllInv s := allInv_ops ops _ (allInv_init opt0) hok
  constructor
  · rw [hinv.idx, kvOfLog_project]
    congr 1
    show (((allRecs s.files).filter isKVrec).filter fun x => x.1.bucket == b).map (·.1) = own.filter fun r => r.ds == dsKV
    simp only [own, List.filter_map, List.filter_filter]
    congr 1
    apply List.filter_congr
    intro x _
    simp only [isKVrec, Function.comp]
    exact Bool.and_comm _ _
  · rw [hinv.structs]
    exact foldSV_project _ _ _ b false rfl

open NutsProofs.Reopen NutsProofs.ReopenAll NutsProofs.Isolation in
/-- **C04 as non-interference.** Two histories whose logs agree on the records that name `b` leave the same
thing in `b`, whatever they did to any other bucket. -/
theorem C04_other_buckets_cannot_matter (opt1 opt2 : Opts) (ops1 ops2 : List OpA)
    (hok1 : OpsOkA (openDB opt1 []).1 ops1) (hok2 : OpsOkA (openDB opt2 []).1 ops2) (b : Bytes)
    (hsame : (((allRecs (ops1.foldl stepA (openDB opt1 []).1).files).map (·.1)).filter fun r => r.bucket == b) =
             (((allRecs (ops2.foldl stepA (openDB opt2 []).1).files).map (·.1)).filter fun r => r.bucket == b)) :
    let s1 := ops1.foldl stepA (openDB opt1 []).1
    let s2 := ops2.foldl stepA (openDB opt2 []).1
    recsOf ((aget? (normKV s1.kv) b).getD []) = recsOf ((aget? (normKV s2.kv) b).getD []) ∧
    viewSV (sv s1) b = viewSV (sv s2) b := by
  intro s1 s2
  have h1 := C04_bucket_is_function_of_own_records opt1 ops1 hok1 b
  have h2 := C04_bucket_is_function_of_own_records opt2 ops2 hok2 b
  simp only at h1 h2
  refine ⟨?_, ?_⟩
  · rw [h1.1, h2.1, hsame]
  · rw [h1.2, h2.2, hsame]

/-- non-vacuity: a history over buckets "a", "ab" and "" with coinciding bucket+key concatenations -/
theorem C04_witness_colliding_names : NutsProofs.ReopenAll.OpsOkA (openDB {} []).1
    [.commit [mkRec [97] [98, 99] [1] flagSet dsKV], .commit [mkRec [97, 98] [99] [2] flagSet dsKV],
     .commit [mkRec [] [97, 98, 99] [3] flagSet dsKV], .reopen {}] := by
  refine ⟨⟨by simp, 0, ?_⟩, by decide +kernel, ⟨by simp, 0, ?_⟩, by decide +kernel, ⟨by simp, 0, ?_⟩, by decide +kernel, rfl, trivial⟩
  all_goals
    intro r hr
    simp only [List.mem_cons, List.mem_nil_iff, or_false] at hr
    subst hr
    exact ⟨by decide +kernel, rfl, fun hd => absurd hd (by decide +kernel)⟩

end NutsProofs.C04
