/-
  C03 — Paginated scans page through live keys.
  As coded, offset and limit are applied to index records *before* deleted/expired ones are dropped
  (finding D-SCAN-DEAD), so the property holds only when no dead record with the prefix lies in
  the scanned block.
-/
import Nuts.Model.Tx
import Nuts.Spec.DB
namespace NutsProofs.C03
open Nuts Nuts.Model Nuts.Model.DB

/-- the wrapper with no dead record in its input keeps the first `limit` records (`limit > 0`) -/
theorem wrapper_nodead (s : State) (hm : s.opt.mode = 0) (now : Nat) (lim : Nat) (hl : 0 < lim)
    (recs : List Idx) (hd : ∀ i ∈ recs, dead i.r now = false) (acc : List (Option Rec)) :
    wrapper s recs lim now acc = .ok (acc ++ (recs.take (lim - acc.length)).map fun i => some i.r) := by
  induction recs generalizing acc with
  | nil => simp [wrapper]
  | cons i rest ih =>
    have hi : dead i.r now = false := hd i (by simp)
    have hrest : ∀ j ∈ rest, dead j.r now = false := fun j hj => hd j (by simp [hj])
    simp only [wrapper, hi, Bool.false_eq_true, ↓reduceIte]
    by_cases hlt : acc.length < lim
    · have c : ((lim : Int) > 0 ∧ (acc.length : Int) < lim) ∨ (lim : Int) = -1 := by left; omega
      simp only [c, ↓reduceIte, fetch, hm, BEq.rfl]
      rw [ih hrest]
      have : lim - acc.length = (lim - (acc ++ [some i.r]).length) + 1 := by simp; omega
      rw [this]
      simp
    · have c : ¬ (((lim : Int) > 0 ∧ (acc.length : Int) < lim) ∨ (lim : Int) = -1) := by omega
      simp only [c, ↓reduceIte]
      rw [ih hrest]
      have : lim - acc.length = 0 := by omega
      simp [this]

/-- **C03 (partial).** In key+value mode, when no record selected by the tree walk is dead, the scan
returns exactly the walk's records: offset and limit have been applied to live keys only. -/
theorem C03_page_nodead (s : State) (hm : s.opt.mode = 0) (now : Nat) (lim : Nat) (hl : 0 < lim)
    (recs : List Idx) (hd : ∀ i ∈ recs, dead i.r now = false) (hlen : recs.length ≤ lim) :
    wrapper s recs lim now = .ok (recs.map fun i => some i.r) := by
  rw [wrapper_nodead s hm now lim hl recs hd []]
  simp [List.take_of_length_le hlen]

/-- Witness of D-SCAN-DEAD: `p1, p2` written, `p1` deleted; `PrefixScan("p", 0, 1)` reports "not found"
although `p2` is live: the tombstone consumed the limit. -/
def sW : State :=
  let s1 := (commit (openDB {} []).1
    [{ (mkRec [97] [112, 49] [120] flagSet dsKV) with txid := 1 }, { (mkRec [97] [112, 50] [121] flagSet dsKV) with txid := 1 }]).1
  (commit s1 [{ (mkRec [97] [112, 49] [] flagDelete dsKV) with txid := 2 }]).1

theorem C03_witness_tombstone_consumes_limit :
    prefixScan sW [97] [112] 0 1 0 = .err ∧
    (prefixScan sW [97] [112] 0 (-1) 0).map (fun l => l.map fun o => o.map (·.key)) = .ok [some [112, 50]] := by
  decide

end NutsProofs.C03
