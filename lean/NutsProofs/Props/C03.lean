/-
  C03 — Paginated scans page through live keys.
  As coded, offset and limit are applied to index records *before* deleted/expired ones are dropped
  (finding D-SCAN-DEAD), so the property holds only when no dead record with the prefix lies in
  the scanned block.
-/
import Nuts.Model.Tx
import Nuts.Spec.DB
import NutsProofs.Lemmas.BPTreeRefine
import NutsProofs.Lemmas.Paging
import NutsProofs.Pins.BPT
namespace NutsProofs.C03
open Nuts Nuts.Model Nuts.Model.DB

/-- the wrapper with no dead record in its input keeps the first `limit` records (`limit > 0`) -/
theorem wrapper_nodead (s : State) (hm : s.opt.mode = 0) (now : Nat) (lim : Nat) (hl : 0 < lim)
    (recs : List Idx) (hd : ∀ i ∈ recs, dead i.r now = false) (acc : List (Option Rec)) :
    wrapper s recs lim now acc = .ok (acc ++ (recs.take (lim - acc.length)).map fun i => some i.r) := by
  induction recs generalizing acc with
  | nil => simp [wrapper]
  | cons i rest ih =>
    have hi : dead i.r now = false := hd i (by simp)
    have hrest : ∀ j ∈ rest, dead j.r now = false := fun j hj => hd j (by simp [hj])
    simp only [wrapper, hi, Bool.false_eq_true, ↓reduceIte]
    by_cases hlt : acc.length < lim
    · have c : ((lim : Int) > 0 ∧ (acc.length : Int) < lim) ∨ (lim : Int) = -1 := by left; omega
      simp only [c, ↓reduceIte, fetch, hm, BEq.rfl]
      rw [ih hrest]
      have : lim - acc.length = (lim - (acc ++ [some i.r]).length) + 1 := by simp; omega
      rw [this]
      simp
    · have c : ¬ (((lim : Int) > 0 ∧ (acc.length : Int) < lim) ∨ (lim : Int) = -1) := by omega
      simp only [c, ↓reduceIte]
      rw [ih hrest]
      have : lim - acc.length = 0 := by omega
      simp [this]

/-- **C03 (partial).** In key+value mode, when no record selected by the tree walk is dead, the scan
returns exactly the walk's records: offset and limit have been applied to live keys only. -/
theorem C03_page_nodead (s : State) (hm : s.opt.mode = 0) (now : Nat) (lim : Nat) (hl : 0 < lim)
    (recs : List Idx) (hd : ∀ i ∈ recs, dead i.r now = false) (hlen : recs.length ≤ lim) :
    wrapper s recs lim now = .ok (recs.map fun i => some i.r) := by
  rw [wrapper_nodead s hm now lim hl recs hd []]
  simp [List.take_of_length_le hlen]

/-- Witness of D-SCAN-DEAD: `p1, p2` written, `p1` deleted; `PrefixScan("p", 0, 1)` reports "not found"
although `p2` is live: the tombstone consumed the limit. -/
def sW : State :=
  let s1 := (commit (openDB {} []).1
    [{ (mkRec [97] [112, 49] [120] flagSet dsKV) with txid := 1 }, { (mkRec [97] [112, 50] [121] flagSet dsKV) with txid := 1 }]).1
  (commit s1 [{ (mkRec [97] [112, 49] [] flagDelete dsKV) with txid := 2 }]).1

theorem C03_witness_tombstone_consumes_limit :
    prefixScan sW [97] [112] 0 1 0 = .err ∧
    (prefixScan sW [97] [112] 0 (-1) 0).map (fun l => l.map fun o => o.map (·.key)) = .ok [some [112, 50]] := by
  decide

/-! ### the scans walk a B+ tree

`DB.rangeScan` and `DB.prefixScan` select from the sorted association list. The code descends to the leaf
`FindLeaf(start)` reaches, skips the smaller keys *in that leaf only* and then follows the leaf chain. On
every well-formed tree (every tree `Insert` builds, theorem `C01_tree_index_refines_sorted_list`) the two
coincide. -/

open Nuts.Model.BPTree NutsProofs.BPT in
/-- **C03 (range scan on the tree).** `findRange(start, end)` on a well-formed B+ tree returns exactly the
records with `start ≤ key ≤ end`, in ascending order. -/
theorem C03_tree_range_is_filter (t : Tree Idx) (h : Tree.WF t) (st en : Bytes) :
    Tree.range t st en = t.toList.filter fun p => ble st p.1 && ble p.1 en :=
  Tree.range_eq_filter t h st en

open Nuts.Model.BPTree NutsProofs.BPT in
/-- **C03 (prefix scans on the tree).** `PrefixScan` / `PrefixSearchScan` on a well-formed B+ tree return
the records, and the final offset counter, of `DB.prefixWalk` on the sorted list, for every prefix, offset,
limit and match predicate. -/
theorem C03_tree_prefix_scan_is_walk (t : Tree Idx) (h : Tree.WF t) (pre : Bytes) (off lim : Int) (mt : Bytes → Bool) :
    ((Tree.prefixScan t pre off lim mt).1.map (·.2), (Tree.prefixScan t pre off lim mt).2) =
      prefixWalk t.toList pre off lim mt :=
  Tree.prefixScan_eq_walk t h pre off lim mt

/-! ### paging against the spec, when no dead record has the prefix

The statement of C03 is false of the code (finding D-SCAN-DEAD: a tombstone or an expired record with the
prefix consumes offset and limit). What does hold, for every history: when no record with the prefix is dead
at the time of the call, `PrefixScan(prefix, offset, limit)` is exactly the spec's page of the live pairs
with the prefix, and `PrefixSearchScan` with offset 0 the page of those that match. -/

open NutsProofs.KVRefine in
/-- the (key, value) pair an index entry shows -/
def pairOf (p : Bytes × Idx) : Bytes × Bytes := (p.1, p.2.r.value)

open NutsProofs.KVRefine in
theorem live_pairs_nodead (l : Assoc Idx) (now : Nat) (hok : IdxOk l) (hn : now < 2 ^ 64)
    (hnd : ∀ p ∈ l, dead p.2.r now = false) : liveBucket (absBucket l) now = l.map pairOf := by
  rw [liveBucket_abs]
  induction l with
  | nil => rfl
  | cons p rest ih =>
    obtain ⟨hfl, hbd, _⟩ := hok p (by simp)
    have hd := dead_iff p.2 now hfl hbd hn
    rw [hnd p (by simp)] at hd
    have hkeep : (isSet (([] : Bytes), p.2) && Nuts.Spec.DB.live now (skvOf p.2)) = true := by
      cases hc : (isSet (([] : Bytes), p.2) && Nuts.Spec.DB.live now (skvOf p.2)) <;> simp [hc] at hd ⊢
    have hsame : isSet p = isSet (([] : Bytes), p.2) := rfl
    simp only [List.filterMap_cons, livePick, hsame, hkeep, if_true, List.map_cons, pairOf]
    rw [ih (fun q hq => hok q (by simp [hq])) (fun q hq => hnd q (by simp [hq]))]

/-- drop `offset`, keep the matching ones, take `limit` when it is positive -/
def pageSel {β} (off lim : Int) (mt : Bytes → Bool) (l : List (Bytes × β)) : List (Bytes × β) :=
  if lim > 0 then ((l.drop off.toNat).filter fun p => mt p.1).take lim.toNat else (l.drop off.toNat).filter fun p => mt p.1

theorem pageSel_map (off lim : Int) (mt : Bytes → Bool) (l : List (Bytes × Idx)) :
    pageSel off lim mt (l.map pairOf) = (pageSel off lim mt l).map pairOf := by
  have hf : ∀ l : List (Bytes × Idx), (l.map pairOf).filter (fun x => mt x.1) = (l.filter fun p => mt p.1).map pairOf := by
    intro l; rw [List.filter_map]; rfl
  unfold pageSel
  split
  · rw [← List.map_drop, hf, ← List.map_take]
  · rw [← List.map_drop, hf]

theorem pageSel_subset {β} (off lim : Int) (mt : Bytes → Bool) (l : List (Bytes × β)) : ∀ p ∈ pageSel off lim mt l, p ∈ l := by
  intro p hp
  unfold pageSel at hp
  have : p ∈ (l.drop off.toNat).filter fun p => mt p.1 := by
    split at hp
    · exact List.mem_of_mem_take hp
    · exact hp
  exact List.mem_of_mem_drop (List.mem_filter.mp this).1

theorem pageSel_length {β} (off lim : Int) (hl : lim > 0) (mt : Bytes → Bool) (l : List (Bytes × β)) :
    (pageSel off lim mt l).length ≤ lim.toNat := by
  unfold pageSel; simp only [hl, if_true]; exact List.length_take_le _ _

open NutsProofs.KVRefine in
theorem pairsOf_entries (sel : List (Bytes × Idx)) (hok : IdxOk sel) :
    pairsOf ((sel.map (·.2)).map fun i => some i.r) = sel.map pairOf := by
  induction sel with
  | nil => rfl
  | cons q rest ih =>
    have hk := (hok q (by simp)).2.2
    simp only [List.map_cons, pairsOf, List.filterMap_cons, Option.map_some, pairOf]
    rw [hk]
    congr 1
    exact ih (fun x hx => hok x (by simp [hx]))

open NutsProofs.KVRefine in
/-- the tail of a scan on a selection without dead records that fits the limit: everything is returned -/
theorem scan_tail_nodead (s : State) (hm : s.opt.mode = 0) (now : Nat) (lim : Int) (sel : List (Bytes × Idx))
    (hok : IdxOk sel) (hnd : ∀ p ∈ sel, dead p.2.r now = false)
    (hlim : lim = -1 ∨ (lim > 0 ∧ sel.length ≤ lim.toNat)) :
    (if (sel.map (·.2)).isEmpty then (Outcome.err : Outcome (List (Option Rec)))
      else nonEmptyOrErr (wrapper s (sel.map (·.2)) lim now)).map pairsOf =
      if sel.map pairOf = [] then .err else .ok (sel.map pairOf) := by
  cases hsel : sel with
  | nil => rfl
  | cons q qs =>
    rw [← hsel]
    have hne : sel ≠ [] := by rw [hsel]; simp
    have hnd' : ∀ i ∈ sel.map (·.2), dead i.r now = false := by
      intro i hi
      obtain ⟨p, hp, rfl⟩ := List.mem_map.mp hi
      exact hnd p hp
    have hwr : wrapper s (sel.map (·.2)) lim now = .ok ((sel.map (·.2)).map fun i => some i.r) := by
      rcases hlim with hl | ⟨hl, hlen⟩
      · subst hl
        rw [wrapper_all s hm now (sel.map (·.2)) []]
        have hfil : ((sel.map (·.2)).filter fun i => !dead i.r now) = sel.map (·.2) := by
          rw [List.filter_eq_self]; intro i hi; simp [hnd' i hi]
        rw [hfil]; rfl
      · have hw := wrapper_nodead s hm now lim.toNat (by omega) (sel.map (·.2)) hnd' []
        have hcast : ((lim.toNat : Nat) : Int) = lim := by omega
        rw [hcast] at hw
        rw [hw]
        simp only [List.nil_append, List.length_nil, Nat.sub_zero]
        rw [List.take_of_length_le (by simpa using hlen)]
    rw [hwr]
    have he : (sel.map (·.2)).isEmpty = false := by rw [hsel]; rfl
    have hmne : sel.map pairOf ≠ [] := by rw [hsel]; simp
    simp only [he, Bool.false_eq_true, if_false, hmne]
    have hn2 : ((sel.map (·.2)).map fun i => some i.r) ≠ [] := by rw [hsel]; simp
    have : nonEmptyOrErr (Outcome.ok ((sel.map (·.2)).map fun i => some i.r)) = Outcome.ok ((sel.map (·.2)).map fun i => some i.r) := by
      cases hx : ((sel.map (·.2)).map fun i => some i.r) with
      | nil => exact absurd hx hn2
      | cons _ _ => rfl
    rw [this]
    simp only [Outcome.map]
    rw [pairsOf_entries sel hok]

open NutsProofs.KVRefine NutsProofs.PrefixRefine NutsProofs.Paging in
/-- **C03 (partial: no dead record with the prefix), bucket level, key+value mode.** -/
theorem prefixScan_page_nodead (s : State) (hm : s.opt.mode = 0) (b : Bytes) (m : Assoc Idx) (hb : bucketIdx s b = some m)
    (hs : Sorted m) (pre : Bytes) (off lim : Int) (hoff : 0 ≤ off) (hlim : lim > 0 ∨ lim = -1) (mt : Bytes → Bool)
    (now : Nat) (hok : IdxOk m) (hn : now < 2 ^ 64)
    (hnd : ∀ p ∈ m, hasPrefix p.1 pre = true → dead p.2.r now = false) :
    (prefixScan s b pre off lim now mt).map pairsOf =
      let sel := pageSel off lim mt ((liveBucket (absBucket m) now).filter fun x => hasPrefix x.1 pre)
      if sel = [] then .err else .ok sel := by
  -- the block of index entries with the prefix, all of them live
  have hblockok : IdxOk (m.filter fun p => hasPrefix p.1 pre) := fun q hq => hok q (List.mem_filter.mp hq).1
  have hblocknd : ∀ p ∈ m.filter (fun p => hasPrefix p.1 pre), dead p.2.r now = false :=
    fun p hp => hnd p (List.mem_filter.mp hp).1 (by simpa using (List.mem_filter.mp hp).2)
  have hlive : (liveBucket (absBucket m) now).filter (fun x => hasPrefix x.1 pre) = (m.filter fun p => hasPrefix p.1 pre).map pairOf := by
    rw [← live_filter_keys m now (fun k => hasPrefix k pre)]
    exact live_pairs_nodead _ now hblockok hn hblocknd
  simp only [hlive, pageSel_map]
  have hsub := pageSel_subset off lim mt (m.filter fun p => hasPrefix p.1 pre)
  have hselok : IdxOk (pageSel off lim mt (m.filter fun p => hasPrefix p.1 pre)) := fun q hq => hblockok q (hsub q hq)
  have hselnd : ∀ p ∈ pageSel off lim mt (m.filter fun p => hasPrefix p.1 pre), dead p.2.r now = false :=
    fun p hp => hblocknd p (hsub p hp)
  have hfit : lim = -1 ∨ (lim > 0 ∧ (pageSel off lim mt (m.filter fun p => hasPrefix p.1 pre)).length ≤ lim.toNat) := by
    rcases hlim with hl | hl
    · exact Or.inr ⟨hl, pageSel_length off lim hl mt _⟩
    · exact Or.inl hl
  have := scan_tail_nodead s hm now lim _ hselok hselnd hfit
  -- what the scan computes is that tail on that selection
  unfold prefixScan prefixWalk
  rw [hb]
  simp only []
  rw [walk_eq_filter pre m hs, go_page off lim hoff mt _]
  exact this

open NutsProofs.Reopen NutsProofs.KVRefine NutsProofs.Hints in
/-- **C03 (partial, every history, both RAM index modes).** After any history of key/value transactions and
reopens, if no record of bucket `b` whose key has the prefix is dead (deleted or expired) at the time of the
call, then `PrefixScan(prefix, offset, limit)` with `offset ≥ 0` and `limit > 0` or `limit = -1` is the spec's
page: the live pairs with the prefix in ascending order, the first `offset` skipped, then — the matching
ones, for `PrefixSearchScan`, which the property considers with offset 0 — at most `limit` of them; an error
exactly when the page is empty. With a dead record in the block this fails: `C03_witness_tombstone_consumes_limit`
(finding D-SCAN-DEAD). -/
theorem C03_page_refines_spec_nodead (opt0 : Opts) (ops : List Op) (hok : OpsOk (openDB opt0 []).1 ops)
    (hrec : OpsRecOk ops) (now : Nat) (hn : now < 2 ^ 64) (b pre : Bytes)
    (off lim : Int) (hoff : 0 ≤ off) (hlim : lim > 0 ∨ lim = -1) (mt : Bytes → Bool)
    (hnd : ∀ m, bucketIdx (ops.foldl stepOp (openDB opt0 []).1) b = some m →
      ∀ p ∈ m, hasPrefix p.1 pre = true → dead p.2.r now = false) :
    let s := ops.foldl stepOp (openDB opt0 []).1
    let spec : Nuts.Spec.DB.SpecDB := { kv := specOfOps ops }
    let page := pageSel off lim mt ((Nuts.Spec.DB.liveOf spec b now).filter fun x => hasPrefix x.1 pre)
    (prefixScan s b pre off lim now mt).map pairsOf = if page = [] then .err else .ok page := by
  intro s spec page
  have hinv : LogInv s := logInv_ops ops _ (logInv_init opt0) hok
  have hpk : Packed s := packed_ops ops _ (logInv_init opt0) (packed_init opt0) hok
  have hlog : (allRecs s.files).map (·.1) = logOf ops := by
    have h0 : (allRecs (openDB opt0 []).1.files).map (·.1) = [] := by simp [openDB, fileEnsure, allRecs]
    have := log_of_ops ops _ (logInv_init opt0) hok
    rw [h0, List.nil_append] at this
    exact this
  have hlogok : ∀ r ∈ logOf ops, RecOk r := logOf_recOk ops hrec
  have hL : ∀ x ∈ allRecs s.files, RecOk x.1 := by
    intro x hx
    apply hlogok
    rw [← hlog]; exact List.mem_map.mpr ⟨x, hx, rfl⟩
  obtain ⟨hsorted, habs, hidx, _⟩ := kvOfLog_props (allRecs s.files) hL
  -- through the key+value twin with the log's index verbatim
  obtain ⟨_, _, _, hp⟩ := reads_mode_independent s hinv hpk
  have hr2 := rebuilt_normState (withMode0 s)
  rw [← pairs_visL, hp b pre off lim now mt, ← prefixScan_rebuilt hr2 b pre off lim now mt, pairs_visL]
  have hkv : (normState (withMode0 s)).kv = kvOfLog (allRecs s.files) := hinv.idx
  have hspec : specOfLog ((allRecs s.files).map (·.1)) = specOfOps ops := by rw [hlog]; exact specOfLog_logOf ops []
  have hA : aget? (specOfOps ops) b = (aget? (kvOfLog (allRecs s.files)) b).map absBucket := by
    rw [← hspec]; unfold specOfLog; rw [← habs]; exact Reopen.aget_map absBucket _ b
  cases hbk : aget? (kvOfLog (allRecs s.files)) b with
  | none =>
    have hb' : bucketIdx (normState (withMode0 s)) b = none := by unfold bucketIdx; rw [hkv]; exact hbk
    have hlive : Nuts.Spec.DB.liveOf spec b now = [] := by
      show liveBucket ((aget? (specOfOps ops) b).getD []) now = []
      rw [hA, hbk]; rfl
    have hpage : page = [] := by
      show pageSel off lim mt ((Nuts.Spec.DB.liveOf spec b now).filter _) = []
      rw [hlive]; unfold pageSel; split <;> simp
    unfold prefixScan
    rw [hb', hpage]
    rfl
  | some m =>
    have hb' : bucketIdx (normState (withMode0 s)) b = some m := by unfold bucketIdx; rw [hkv]; exact hbk
    have hlive : Nuts.Spec.DB.liveOf spec b now = liveBucket (absBucket m) now := by
      show liveBucket ((aget? (specOfOps ops) b).getD []) now = _
      rw [hA, hbk]; rfl
    -- the hypothesis about dead records, carried to the normalised bucket
    have hnd' : ∀ p ∈ m, hasPrefix p.1 pre = true → dead p.2.r now = false := by
      intro p hp hpre
      -- `m` is the normalised bucket of `s`
      have hbs : bucketIdx s b = (bucketIdx s b) := rfl
      cases hsb : bucketIdx s b with
      | none =>
        have : aget? (normKV s.kv) b = none := by
          unfold normKV; rw [Reopen.aget_map normBucket]; unfold bucketIdx at hsb; rw [hsb]; rfl
        rw [show normKV s.kv = kvOfLog (allRecs s.files) from hinv.idx, hbk] at this
        cases this
      | some m0 =>
        have : aget? (normKV s.kv) b = some (normBucket m0) := by
          unfold normKV; rw [Reopen.aget_map normBucket]; unfold bucketIdx at hsb; rw [hsb]; rfl
        rw [show normKV s.kv = kvOfLog (allRecs s.files) from hinv.idx, hbk] at this
        have hm0 : m = normBucket m0 := Option.some.inj this
        rw [hm0] at hp
        unfold normBucket at hp
        obtain ⟨p0, hp0, rfl⟩ := List.mem_map.mp hp
        exact hnd m0 hsb p0 hp0 hpre
    have := prefixScan_page_nodead (normState (withMode0 s)) rfl b m hb' (hsorted b m hbk) pre off lim hoff hlim mt now
      (fun p hp => hidx b m p hbk hp) hn hnd'
    rw [this]
    show (if pageSel off lim mt ((liveBucket (absBucket m) now).filter _) = [] then _ else _) = _
    rw [← hlive]

/-- **regenerated tie of the scans.** The loop headers, the prefix test, the offset counter (`coff < offsetNum`,
`coff++`) and the limit test (`limitNum > 0 && numFound == limitNum`) of `PrefixScan` / `PrefixSearchScan`, and
the bounds of `findRange`, are on this run the lines the model was written from (part of
`NutsProofs.Facts.expectedBptStmts`). -/
theorem C03_scan_statements_regenerated : NutsGen.F.bptStmts = NutsProofs.Facts.expectedBptStmts :=
  NutsProofs.Facts.bpt_statements_ok

end NutsProofs.C03
