/-
  C03 — Paginated scans page through live keys.
  As coded, offset and limit are applied to index records *before* deleted/expired ones are dropped
  (finding D-SCAN-DEAD), so the property holds only when no dead record with the prefix lies in
  the scanned block.
-/
import Nuts.Model.Tx
import Nuts.Spec.DB
import NutsProofs.Lemmas.BPTreeRefine
namespace NutsProofs.C03
open Nuts Nuts.Model Nuts.Model.DB

/-- the wrapper with no dead record in its input keeps the first `limit` records (`limit > 0`) -/
theorem wrapper_nodead (s : State) (hm : s.opt.mode = 0) (now : Nat) (lim : Nat) (hl : 0 < lim)
    (recs : List Idx) (hd : ∀ i ∈ recs, dead i.r now = false) (acc : List (Option Rec)) :
    wrapper s recs lim now acc = .ok (acc ++ (recs.take (lim - acc.length)).map fun i => some i.r) := by
  induction recs generalizing acc with
  | nil => simp [wrapper]
  | cons i rest ih =>
    have hi : dead i.r now = false := hd i (by simp)
    have hrest : ∀ j ∈ rest, dead j.r now = false := fun j hj => hd j (by simp [hj])
    simp only [wrapper, hi, Bool.false_eq_true, ↓reduceIte]
    by_cases hlt : acc.length < lim
    · have c : ((lim : Int) > 0 ∧ (acc.length : Int) < lim) ∨ (lim : Int) = -1 := by left; omega
      simp only [c, ↓reduceIte, fetch, hm, BEq.rfl]
      rw [ih hrest]
      have : lim - acc.length = (lim - (acc ++ [some i.r]).length) + 1 := by simp; omega
      rw [this]
      simp
    · have c : ¬ (((lim : Int) > 0 ∧ (acc.length : Int) < lim) ∨ (lim : Int) = -1) := by omega
      simp only [c, ↓reduceIte]
      rw [ih hrest]
      have : lim - acc.length = 0 := by omega
      simp [this]

/-- **C03 (partial).** In key+value mode, when no record selected by the tree walk is dead, the scan
returns exactly the walk's records: offset and limit have been applied to live keys only. -/
theorem C03_page_nodead (s : State) (hm : s.opt.mode = 0) (now : Nat) (lim : Nat) (hl : 0 < lim)
    (recs : List Idx) (hd : ∀ i ∈ recs, dead i.r now = false) (hlen : recs.length ≤ lim) :
    wrapper s recs lim now = .ok (recs.map fun i => some i.r) := by
  rw [wrapper_nodead s hm now lim hl recs hd []]
  simp [List.take_of_length_le hlen]

/-- Witness of D-SCAN-DEAD: `p1, p2` written, `p1` deleted; `PrefixScan("p", 0, 1)` reports "not found"
although `p2` is live: the tombstone consumed the limit. -/
def sW : State :=
  let s1 := (commit (openDB {} []).1
    [{ (mkRec [97] [112, 49] [120] flagSet dsKV) with txid := 1 }, { (mkRec [97] [112, 50] [121] flagSet dsKV) with txid := 1 }]).1
  (commit s1 [{ (mkRec [97] [112, 49] [] flagDelete dsKV) with txid := 2 }]).1

theorem C03_witness_tombstone_consumes_limit :
    prefixScan sW [97] [112] 0 1 0 = .err ∧
    (prefixScan sW [97] [112] 0 (-1) 0).map (fun l => l.map fun o => o.map (·.key)) = .ok [some [112, 50]] := by
  decide

/-! ### the scans walk a B+ tree

`DB.rangeScan` and `DB.prefixScan` select from the sorted association list. The code descends to the leaf
`FindLeaf(start)` reaches, skips the smaller keys *in that leaf only* and then follows the leaf chain. On
every well-formed tree (every tree `Insert` builds, theorem `C01_tree_index_refines_sorted_list`) the two
coincide. -/

open Nuts.Model.BPTree NutsProofs.BPT in
/-- **C03 (range scan on the tree).** `findRange(start, end)` on a well-formed B+ tree returns exactly the
records with `start ≤ key ≤ end`, in ascending order. -/
theorem C03_tree_range_is_filter (t : Tree Idx) (h : Tree.WF t) (st en : Bytes) :
    Tree.range t st en = t.toList.filter fun p => ble st p.1 && ble p.1 en :=
  Tree.range_eq_filter t h st en

open Nuts.Model.BPTree NutsProofs.BPT in
/-- **C03 (prefix scans on the tree).** `PrefixScan` / `PrefixSearchScan` on a well-formed B+ tree return
the records, and the final offset counter, of `DB.prefixWalk` on the sorted list, for every prefix, offset,
limit and match predicate. -/
theorem C03_tree_prefix_scan_is_walk (t : Tree Idx) (h : Tree.WF t) (pre : Bytes) (off lim : Int) (mt : Bytes → Bool) :
    ((Tree.prefixScan t pre off lim mt).1.map (·.2), (Tree.prefixScan t pre off lim mt).2) =
      prefixWalk t.toList pre off lim mt :=
  Tree.prefixScan_eq_walk t h pre off lim mt

end NutsProofs.C03
