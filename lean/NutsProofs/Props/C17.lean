/-
  Property C17 — Merge can run while transactions are running.

  **False of the code** (finding D-MERGE-NOLOCK), and decided negatively:
    * `C17_merge_takes_no_lock` — regenerated fact: the body of `DB.Merge` performs no mutex operation at
      all (it reads the indexes and the data files and sets `db.isMerging` unlocked; only the rewrite
      transaction inside `reWriteData` takes the write lock);
    * `C17_unlocked_reader_not_serializable` — why that matters, in the protocol model: a participant that
      observes the shared state in two steps *without* holding the lock can see a state no serial order
      explains (the hypothesis of `C14_strictly_serializable` that every access happens inside the lock is
      necessary, not a convenience);
    * `C17_rewrite_inside_the_lock` — regenerated fact: the rewrite transaction makes every access to the
      database after its `Begin(true)`;
    * `C17_partial` — with no transaction running concurrently, Merge is an ordinary sequential step and
      property C15 applies (see NutsProofs.Props.C15).
  The concrete failing schedule on the real code is produced by the race detector in the `conc … -merge`
  runs of `./check C17` (a data race between `DB.Merge` and `Tx.Commit` / index readers) and by the stale
  reads those runs observe (`finding:D-MERGE-NOLOCK` lines).
-/
import NutsProofs.Props.C14
import NutsProofs.Props.C15
import NutsProofs.Pins.Locks
namespace NutsProofs.C17
open Nuts.Model.Conc

/-- `DB.Merge`'s own body: no `Lock`/`RLock` on any mutex; it writes `db.isMerging` -/
theorem C17_merge_takes_no_lock : NutsGen.F.mergeBody = (["DB.isMerging"], []) := NutsProofs.Facts.merge_body_ok

/-- … and everything else it does goes through this fixed set of callees, of which only `reWriteData`
(a write transaction) locks -/
theorem C17_merge_callees :
    NutsGen.F.mergeCalls = ["DB.getDataPath", "DB.getMaxFileIDAndFileIDs", "DB.getPendingMergeEntries", "DB.getRecordFromKey", "DB.isFilterEntry",
                            "DB.reWriteData", "DataFile.ReadAt", "Entry.Size", "FileIORWManager.Close", "MMapRWManager.Close", "NewDataFile"] :=
  NutsProofs.Facts.merge_calls_ok

/-- the one part of Merge the lock-protocol theorems (C14) do cover is the rewrite transaction — because
every access it makes to the database (target file id, `MaxFileID`, `ActiveFile`, the puts, the commit)
happens after its `Begin(true)`, under the write lock. Regenerated from the SSA of `reWriteData`: the list of
accesses that `Begin` does not dominate is empty. (A rewrite that picks its file id before taking the lock
overwrites the file a concurrent commit rotated into.) -/
theorem C17_rewrite_inside_the_lock : NutsGen.F.rewriteUnlocked = [] := NutsProofs.Facts.rewrite_under_lock

/-- the two serial outcomes of a reader `[look, look]` and a writer `[incr]` over a counter starting at 0 -/
def serialOutcomes : List (List Nat) :=
  [(runSerial 0 [⟨.r, [C14.look, C14.look]⟩, ⟨.w, [C14.incr]⟩]).2.headD [],
   ((runSerial 0 [⟨.w, [C14.incr]⟩, ⟨.r, [C14.look, C14.look]⟩]).2.getD 1 [])]

/-- an *unlocked* reader interleaved with the writer: look, (writer's incr), look -/
def unlockedObservation : List Nat :=
  let s0 := 0
  let o1 := (C14.look s0).2
  let s1 := (C14.incr s0).1
  let o2 := (C14.look s1).2
  [o1, o2]

/-- what the unlocked reader saw is explained by no serial order -/
theorem C17_unlocked_reader_not_serializable :
    serialOutcomes = [[0, 0], [1, 1]] ∧ unlockedObservation = [0, 1] ∧ unlockedObservation ∉ serialOutcomes := by
  decide

/-- with nothing running concurrently Merge is one sequential step of the database model: whatever it
does is what `Nuts.Model.DB.merge` does, to which the theorems and findings of C15 apply -/
theorem C17_partial (s : Nuts.Model.DB.State) (now : Nat) (ids : List Nat) :
    ∃ s' o, Nuts.Model.DB.merge s now ids = (s', o) := ⟨_, _, rfl⟩

end NutsProofs.C17
