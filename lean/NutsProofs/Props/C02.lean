/-
  Property C02 — key/value reads match an ordered map in sparse B+ tree index mode.

  Model: Nuts.Model.Sparse (segment-content level; the on-disk node files are abstracted to the content of
  the tree they were written from — validated by the correspondence suite `db-sparse`, which compares every
  Get / GetAll / RangeScan / PrefixScan / PrefixSearchScan of generated histories, with rotations every few
  records and clean reopens, with this model).

  The property is only partly true of the code; what is proved, and the findings that bound it:
    * `C02_get_active_first`, `C02_get_newest_segment_decides` — `Get` consults the active tree first and then
      the sealed segments from the newest to the oldest, and the first segment that holds the composite key
      decides: the newest version of a key wins, a tombstone in a newer segment hides an older put;
    * `C02_range_test_misses_exactly_nested` — the segment selection of `RangeScan` (as coded: "first or last
      key of the segment lies in the scanned range") selects a segment that overlaps the scanned range **unless
      the segment's range strictly contains it** — exactly then data in older segments is invisible
      (finding D-SPARSE-RANGE, witness `C02_witness_range_miss`);
    * `C02_witness_concat` — composite keys `bucket ++ key` of different buckets collide (finding
      D-SPARSE-CONCAT): `Get("a","bc")` answers with the record of `("ab","c")`;
    * `C02_commit_active_sorted` — every commit keeps the active tree's key sequence strictly ascending, so
      in-range / prefix blocks are contiguous.
  Recorded findings that the correspondence keeps reproducing (signatures in Nuts/Driver/Sparse.lean):
  D-SPARSE-PAGE (offset/limit per segment, no-limit scans skip sealed segments, a page filled from the
  active tree is returned unfiltered), D-SPARSE-META (GetAll scans the persisted meta range, which only the
  last record's bucket of a transaction gets widened).
-/
import Nuts.Model.Sparse
import Nuts.Model.Tx
import NutsProofs.Lemmas.Assoc
import NutsProofs.Lemmas.Bytes
import NutsProofs.Lemmas.SparseGet
import NutsProofs.Pins.ReadPath
namespace NutsProofs.C02
open Nuts Nuts.Model Nuts.Model.DB Nuts.Model.Sparse NutsProofs

/-! ### Get -/

/-- the active tree is consulted first: a committed, readable entry there decides -/
theorem C02_get_active_first (s : SState) (b k : Bytes) (now : Nat) (i : Idx) (r : Rec)
    (hi : aget? s.active (b ++ k) = some i) (hc : s.activeTx.contains i.r.txid = true)
    (hr : readRec s i = .ok (some r)) :
    Sparse.get s b k now = if dead r now then .err else .ok (some r) := by
  have hc' : i.r.txid ∈ s.activeTx := by simpa using hc
  simp [Sparse.get, hi, hc', hr]

/-- segments that do not hold the composite key are passed over … -/
theorem getOnDisk_skip (s : SState) (nk : Bytes) (now : Nat) (g : Seg) (rest : List Seg)
    (h : aget? g.content nk = none) : getOnDisk s nk now (g :: rest) = getOnDisk s nk now rest := by
  simp only [getOnDisk]
  split <;> simp [h]

/-- … and the first (newest) segment that holds it, inside its key range, decides: a tombstone or an
expired entry ends the search with "not found" — older versions stay hidden — and a live entry is
returned when its transaction is committed. -/
theorem C02_get_newest_segment_decides (s : SState) (nk : Bytes) (now : Nat) (newer : List Seg) (g : Seg) (older : List Seg)
    (hnewer : ∀ x ∈ newer, aget? x.content nk = none)
    (i : Idx) (r : Rec) (hi : aget? g.content nk = some i) (hrange : inRange nk g.first g.last = true)
    (hr : readAt s.files s.seg g.fid i.pos = .ok (some r)) :
    getOnDisk s nk now (newer ++ g :: older) =
      if dead r now then .err
      else if s.activeTx.contains r.txid || g.txids.contains r.txid then .ok (some r) else .err := by
  induction newer with
  | nil =>
    simp only [List.nil_append, getOnDisk, hrange, if_true, hi, hr]
    by_cases hd : dead r now = true
    · simp [hd]
    · simp only [hd, Bool.false_eq_true, if_false]
      simp only [List.contains_iff_mem, Bool.or_eq_true, decide_eq_true_eq]
      by_cases h1 : r.txid ∈ s.activeTx
      · simp [h1]
      · by_cases h2 : r.txid ∈ g.txids
        · simp [h1, h2]
        · simp [h1, h2]
  | cons x rest ih =>
    rw [List.cons_append, getOnDisk_skip s nk now x _ (hnewer x (by simp))]
    exact ih (fun y hy => hnewer y (by simp [hy]))

/-! ### RangeScan's segment selection -/

def le (a b : Bytes) : Prop := bcmp a b ≠ .gt
def lt (a b : Bytes) : Prop := bcmp a b = .lt

theorem le_of_lt {a b : Bytes} (h : lt a b) : le a b := by unfold le lt at *; rw [h]; simp

theorem le_total (a b : Bytes) : le a b ∨ lt b a := by
  unfold le lt
  cases h : bcmp a b
  · left; simp
  · left; simp
  · right; exact (NutsProofs.bcmp_gt_iff_lt a b).mp h

theorem lt_irrefl_le {a b : Bytes} (h1 : le a b) (h2 : lt b a) : False := by
  unfold le lt at *
  exact h1 ((NutsProofs.bcmp_gt_iff_lt a b).mpr h2)

theorem rangeSelects_eq (ns ne : Bytes) (g : Seg) :
    rangeSelects ns ne g = true ↔ (le ns g.first ∧ le g.first ne) ∨ (le ns g.last ∧ le g.last ne) := by
  unfold rangeSelects le
  simp [bne_iff_ne]

/-- **The as-coded overlap test.** It never selects a segment wrongly, and among the segments whose key
range `[first, last]` overlaps the scanned range `[ns, ne]` it misses exactly those whose range strictly
contains the scanned one. -/
theorem C02_range_test_misses_exactly_nested (ns ne : Bytes) (g : Seg) (hseg : le g.first g.last) (hscan : le ns ne) :
    (rangeSelects ns ne g = true → le g.first ne ∧ le ns g.last) ∧
    (le g.first ne ∧ le ns g.last → rangeSelects ns ne g = false → lt g.first ns ∧ lt ne g.last) := by
  have trans : ∀ {a b c : Bytes}, le a b → le b c → le a c := by
    intro a b c h1 h2
    unfold le at *
    intro hgt
    -- a > c: with a ≤ b we get c < a ≤ b, contradicting b ≤ c
    have hca : bcmp c a = .lt := (NutsProofs.bcmp_gt_iff_lt a c).mp hgt
    cases hab : bcmp a b with
    | gt => exact h1 hab
    | eq => rw [(NutsProofs.bcmp_eq_iff a b).mp hab] at hca; exact h2 ((NutsProofs.bcmp_gt_iff_lt b c).mpr hca)
    | lt => exact h2 ((NutsProofs.bcmp_gt_iff_lt b c).mpr (NutsProofs.bcmp_lt_trans hca hab))
  constructor
  · intro h
    rcases (rangeSelects_eq ns ne g).mp h with ⟨h1, h2⟩ | ⟨h1, h2⟩
    · exact ⟨h2, trans h1 hseg⟩
    · exact ⟨trans hseg h2, h1⟩
  · intro ⟨hov1, hov2⟩ hsel
    have hn : ¬ ((le ns g.first ∧ le g.first ne) ∨ (le ns g.last ∧ le g.last ne)) := by
      intro h; rw [(rangeSelects_eq ns ne g).mpr h] at hsel; cases hsel
    constructor
    · rcases le_total ns g.first with h | h
      · exact absurd (Or.inl ⟨h, hov1⟩) hn
      · exact h
    · rcases le_total g.last ne with h | h
      · exact absurd (Or.inr ⟨hov2, h⟩) hn
      · exact h

/-! ### witnesses -/

def put (s : SState) (b k v : Bytes) (id : Nat) : SState := (Sparse.commit s [{ (mkRec b k v flagSet dsKV) with txid := id }]).1

/-- D-SPARSE-CONCAT: two buckets whose composite keys coincide -/
def wConcat : SState := put (put (Sparse.openDB 1000 [] [] []).1 [97] [98, 99] [49] 1) [97, 98] [99] [50] 2

theorem C02_witness_concat : (Sparse.get wConcat [97] [98, 99] 0).map (fun o => o.map fun r => (r.bucket, r.key, r.value)) = .ok (some ([97, 98], [99], [50])) := by
  decide +kernel

/-- D-SPARSE-RANGE: keys k1 … k4 in a 200-byte segment that gets sealed; a scan of [k2, k3] lies strictly
inside the sealed segment's range and finds nothing although k2 and k3 are live -/
def wRange : SState :=
  let s0 := (Sparse.openDB 200 [] [] []).1
  let s1 := put s0 [97] [107, 49] [120] 1
  let s2 := put s1 [97] [107, 52] [120] 2
  let s3 := put s2 [97] [107, 50] [120] 3
  let s4 := put s3 [97] [107, 51] [120] 4
  put s4 [97] [122] [120] 5

theorem C02_witness_range_miss :
    wRange.sealed.length = 1 ∧ Sparse.rangeScan wRange [97] [107, 50] [107, 51] 0 = .err ∧
    (Sparse.get wRange [97] [107, 50] 0).isOk = true ∧ (Sparse.get wRange [97] [107, 51] 0).isOk = true := by
  decide +kernel

/-! ### the active tree stays sorted -/

theorem treeInsert_sorted (s : SState) (k : Bytes) (i : Idx) (h : NutsProofs.Sorted s.active) : NutsProofs.Sorted (treeInsert s k i).active :=
  NutsProofs.upsert_sorted _ _ _ h

/-! ### `Get` along every history -/

/-- histories: write transactions of key/value records, and clean reopens (with any segment size) -/
inductive SOp where
  | commit (t : List Rec)
  | reopen (seg : Nat)

def stepS (s : SState) : SOp → SState
  | .commit t => (Sparse.commit s t).1
  | .reopen g => (Sparse.openDB g s.files s.sealed s.metas).1

open NutsProofs.SparseGet in
/-- every transaction has one id, no empty key, and its `Commit` returned success -/
def SOpsOk : SState → List SOp → Prop
  | _, [] => True
  | s, .commit t :: rest => t ≠ [] ∧ (∃ tid, KVTx tid t) ∧ (Sparse.commit s t).2 = .ok () ∧ SOpsOk (Sparse.commit s t).1 rest
  | s, .reopen g :: rest => SOpsOk (Sparse.openDB g s.files s.sealed s.metas).1 rest

open NutsProofs.SparseGet in
theorem good_history : ∀ (ops : List SOp) (s : SState), Good s → SOpsOk s ops → Good (ops.foldl stepS s) := by
  intro ops
  induction ops with
  | nil => intro s h _; exact h
  | cons op rest ih =>
    intro s h hok
    cases op with
    | commit t =>
      obtain ⟨hne, ⟨tid, htx⟩, hc, hrest⟩ := hok
      exact ih _ (commit_inv s t tid h hne htx hc).1 hrest
    | reopen g => exact ih _ (reopen_good s h g) hok

open NutsProofs.SparseGet in
/-- **C02, `Get`, every history.** Take any sequence of successfully committed key/value transactions and clean
reopens on a fresh sparse-mode database — any number of records per transaction, any segment size (it may change
at a reopen), rotations wherever they fall (inside a transaction too). Then `Get(bucket, key)` returns the
**latest record written under the composite key `bucket ++ key`** — searching the active tree, then the sealed
segments newest first through their key ranges — when that record is live at `now`, and "not found" when there
is none or it is a tombstone or has expired. Key ranges, per-segment transaction-id sets, the rebuild of the
active tree at `Open` and the read-back from the data file are all inside the theorem; the composite key is the
exact content of finding D-SPARSE-CONCAT: for databases in which no two (bucket, key) pairs concatenate to the
same bytes this *is* the ordered map with TTL. -/
theorem C02_get_is_latest_of_composite_key (seg : Nat) (ops : List SOp)
    (hok : SOpsOk (Sparse.openDB seg [] [] []).1 ops) (b k : Bytes) (now : Nat) :
    let s := ops.foldl stepS (Sparse.openDB seg [] [] []).1
    Sparse.get s b k now = match latestFile s.files.reverse (b ++ k) with
      | some r => judged r now
      | none => .err := by
  intro s
  exact get_spec s (good_history ops _ (good_init seg) hok).1 b k now

open NutsProofs.SparseGet in
/-- **C02 as the property states it, for `Get`.** In a database all of whose records belong to one bucket `b` —
the single-bucket histories the property quantifies over, where composite keys are unambiguous — `Get(b, k)`
after any history of successful commits and clean reopens is the **last record written under key `k`** in the
whole log (files in id order, records in write order): its value when it is a live put, "not found" when it is
a tombstone, has expired, or no such record exists. Data that lives only in sealed segments is as visible as
data in the active one. -/
theorem C02_get_single_bucket (seg : Nat) (ops : List SOp) (hok : SOpsOk (Sparse.openDB seg [] [] []).1 ops)
    (b k : Bytes) (now : Nat)
    (hb : ∀ x ∈ allRecs (ops.foldl stepS (Sparse.openDB seg [] [] []).1).files, x.1.bucket = b) :
    Sparse.get (ops.foldl stepS (Sparse.openDB seg [] [] []).1) b k now =
      match lastInLog (ops.foldl stepS (Sparse.openDB seg [] [] []).1).files (fun r => r.ds == dsKV && r.key == k) with
      | some r => judged r now
      | none => .err := by
  have h := C02_get_is_latest_of_composite_key seg ops hok b k now
  simp only at h
  rw [h, latestFile_eq]
  have hq : lastInLog (ops.foldl stepS (Sparse.openDB seg [] [] []).1).files (fun r => r.ds == dsKV && newKey r == b ++ k) =
      lastInLog (ops.foldl stepS (Sparse.openDB seg [] [] []).1).files (fun r => r.ds == dsKV && r.key == k) := by
    unfold lastInLog
    congr 2
    apply List.filter_congr
    intro x hx
    have hxb := hb x hx
    show (x.1.ds == dsKV && newKey x.1 == b ++ k) = (x.1.ds == dsKV && x.1.key == k)
    unfold newKey
    rw [hxb]
    congr 1
    by_cases hk : x.1.key = k
    · rw [hk]; simp
    · have hne : ¬ (b ++ x.1.key = b ++ k) := fun e => hk (List.append_cancel_left e)
      have h1 : (b ++ x.1.key == b ++ k) = false := by simpa using hne
      have h2 : (x.1.key == k) = false := by simpa using hk
      rw [h1, h2]
  rw [hq]

/-- **regenerated tie of the read path.** The conditions of tx_bptree.go the sparse model renders — the
in-memory-first order, `SortFID` newest first, the segment range test of `Get`
(`compare(newKey, start) >= 0 && compare(newKey, end) <= 0`), the as-coded overlap test of `rangeScanOnDisk`, the
dead-record tests, the dedupe / filter of `processEntriesScanOnDisk`, the limit tests of the prefix scans — are,
on this run, the expected lines (`NutsProofs.Facts.expectedReadPathStmts`). -/
theorem C02_read_path_regenerated : NutsGen.F.readPathStmts = NutsProofs.Facts.expectedReadPathStmts :=
  NutsProofs.Facts.read_path_ok

/-- a history that rotates three times (100-byte segments), overwrites a key across segments and deletes one -/
def wHist : List SOp :=
  [.commit [{ (mkRec [97] [107, 49] [120] flagSet dsKV) with txid := 1 }],
   .commit [{ (mkRec [97] [107, 50] [120] flagSet dsKV) with txid := 2 }, { (mkRec [97] [107, 51] [120] flagSet dsKV) with txid := 2 }],
   .commit [{ (mkRec [97] [107, 49] [121] flagSet dsKV) with txid := 3 }, { (mkRec [97] [107, 52] [120] flagSet dsKV) with txid := 3 }],
   .reopen 100,
   .commit [{ (mkRec [97] [107, 50] [] flagDelete dsKV) with txid := 4 }, { (mkRec [97] [107, 53] [120] flagSet dsKV) with txid := 4 }],
   .commit [{ (mkRec [97] [107, 54] [120] flagSet dsKV) with txid := 5 }]]

open NutsProofs.SparseGet in
/-- non-vacuity: the history above meets the hypotheses, seals three segments (100-byte segments, two records
each; transactions span rotations), reopens in the middle, and `Get` answers across the segments -/
theorem C02_witness_history :
    SOpsOk (Sparse.openDB 100 [] [] []).1 wHist ∧
    ((wHist.foldl stepS (Sparse.openDB 100 [] [] []).1).sealed.map (·.fid)) = [0, 1, 2] ∧
    (Sparse.get (wHist.foldl stepS (Sparse.openDB 100 [] [] []).1) [97] [107, 49] 0).map
      (fun o => o.map (·.value)) = .ok (some [121]) ∧
    Sparse.get (wHist.foldl stepS (Sparse.openDB 100 [] [] []).1) [97] [107, 50] 0 = .err := by
  refine ⟨?_, by decide +kernel, by decide +kernel, by decide +kernel⟩
  refine ⟨by simp, ⟨1, ?_⟩, by decide +kernel, by simp, ⟨2, ?_⟩, by decide +kernel, by simp, ⟨3, ?_⟩, by decide +kernel,
    by simp, ⟨4, ?_⟩, by decide +kernel, by simp, ⟨5, ?_⟩, by decide +kernel, trivial⟩
  all_goals
    intro r hr
    simp only [List.mem_cons, List.mem_nil_iff, or_false] at hr
    rcases hr with rfl | rfl <;> exact ⟨rfl, by decide⟩

end NutsProofs.C02
