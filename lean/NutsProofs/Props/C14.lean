/-
  Property C14 — concurrent transactions are strictly serializable (and race-free, deadlock-free).

  Model: Nuts.Model.Conc — any number of threads, each running one transaction (a list of steps over an
  abstract database state) under the RWMutex protocol of tx.go, **every schedule**: any thread may be
  scheduled between any two steps of any other.

  Proved here (for all programs, all thread counts, all schedules):
    * mutual exclusion: a writer inside its transaction excludes everybody else; readers exclude writers
      (`C14_mutual_exclusion`);
    * a read-only transaction sees one unchanging state, and every finished transaction observed exactly
      what its program observes when run alone from the state it found at lock acquisition (`C14_snapshot`);
    * strict serializability: when all transactions have finished, the final state and every observation
      are those of running the transactions one after another in lock-acquisition order, each exactly once
      (`C14_strictly_serializable`); that order extends real time — a transaction that finished before
      another one acquired the lock comes earlier (`C14_real_time`);
    * no deadlock: while some transaction is unfinished, some step is enabled (`C14_no_deadlock`).
  Hypothesis `ReadPure` (steps of read-mode transactions do not change the shared state) and the shape of
  the protocol (lock taken by Begin according to `writable`, released by Commit/Rollback, nothing shared
  touched outside) are discharged for the code by the regenerated facts in `C14_facts_ok` — with the listed
  exceptions, each a recorded finding. Beyond the model (labelled partial): the Go memory model (lock ⇒
  happens-before), the runtime scheduler, the soundness of the effect extraction; the race detector and
  the lock-order replay of the `conc` suites are the search for those.
-/
import NutsProofs.Lemmas.Conc
import NutsGen.Facts
import NutsProofs.Pins.Locks
namespace NutsProofs.C14
open Nuts.Model.Conc NutsProofs.Conc

variable {S O : Type}

/-- **Mutual exclusion**, in every reachable state of every execution. -/
theorem C14_mutual_exclusion (progs : List (TxProg S O)) (st0 : S) (hpure : ∀ p ∈ progs, p.ReadPure) (sys : Sys S O)
    (hr : Reach (initSys st0 progs) sys) (i j : Nat) (ti tj : Thread S O)
    (hi : sys.threads[i]? = some ti) (hj : sys.threads[j]? = some tj) (hij : i ≠ j)
    (hbi : inBody ti = true) (hbj : inBody tj = true) : ti.prog.mode = .r ∧ tj.prog.mode = .r :=
  (reach_inv progs st0 hpure sys hr).excl i j ti tj hi hj hij hbi hbj

/-- **Snapshot.** While a read-only transaction is inside, the database state is the one it found when
it acquired the lock; and what any transaction has observed so far is what its program observes when run
alone from that state. -/
theorem C14_snapshot (progs : List (TxProg S O)) (st0 : S) (hpure : ∀ p ∈ progs, p.ReadPure) (sys : Sys S O)
    (hr : Reach (initSys st0 progs) sys) (i : Nat) (t : Thread S O) (hi : sys.threads[i]? = some t) :
    (∀ pc, t.phase = .body pc → t.obs = (run (t.prog.steps.take pc) t.s0).2 ∧ (t.prog.mode = .r → sys.st = t.s0)) ∧
    (t.phase = .done → t.obs = (run t.prog.steps t.s0).2) := by
  have h := reach_inv progs st0 hpure sys hr
  exact ⟨fun pc hp => (h.body i t pc hi hp).2, h.finished i t hi⟩

/-- serial execution along a chained log gives every transaction the start state the log recorded -/
theorem serial_of_chain (progOf : Nat → Option (TxProg S O)) (obsOf : Nat → Option (List O)) (s : S) (log : List (Nat × S))
    (hc : Chain progOf s log)
    (hobs : ∀ i si, (i, si) ∈ log → ∃ p, progOf i = some p ∧ obsOf i = some (run p.steps si).2) :
    runSerial s (log.filterMap fun x => progOf x.1) = (endState progOf s log, log.filterMap fun x => obsOf x.1) := by
  induction log generalizing s with
  | nil => simp [runSerial, endState]
  | cons x rest ih =>
    obtain ⟨i, si⟩ := x
    obtain ⟨hs, p, hp, hrest⟩ := hc
    obtain ⟨p', hp', ho⟩ := hobs i si (by simp)
    rw [hp] at hp'; cases hp'
    subst hs
    simp only [List.filterMap_cons, hp, ho, runSerial, endState]
    rw [ih _ hrest (fun j sj hj => hobs j sj (by simp [hj]))]

/-- **Strict serializability.** When every transaction has finished, under any schedule: the final database
state and the observations of every transaction are exactly those of executing the transactions one after
another in the order in which they acquired the lock; every transaction occurs in that order exactly once. -/
theorem C14_strictly_serializable (progs : List (TxProg S O)) (st0 : S) (hpure : ∀ p ∈ progs, p.ReadPure) (sys : Sys S O)
    (hr : Reach (initSys st0 progs) sys) (hdone : ∀ (i : Nat) (t : Thread S O), sys.threads[i]? = some t → t.phase = .done) :
    runSerial st0 (sys.log.filterMap fun x => progs[x.1]?) =
      (sys.st, sys.log.filterMap fun x => (sys.threads[x.1]?).map (·.obs)) ∧
    (sys.log.map (·.1)).Nodup ∧
    (∀ (i : Nat) (t : Thread S O), sys.threads[i]? = some t → i ∈ sys.log.map (·.1)) := by
  have h := reach_inv progs st0 hpure sys hr
  refine ⟨?_, h.nodup, ?_⟩
  · have hq : sys.st = endState (fun i => progs[i]?) st0 sys.log := by
      apply h.quiet
      intro i t hi hb
      have := hdone i t hi
      simp [inBody, this] at hb
    rw [hq]
    apply serial_of_chain (fun i => progs[i]?) (fun i => (sys.threads[i]?).map (·.obs)) st0 sys.log h.chain
    intro i si hmem
    obtain ⟨t, ht, _, hs0⟩ := h.oflog i si hmem
    refine ⟨t.prog, h.prog i t ht, ?_⟩
    simp only [ht, Option.map_some]
    rw [h.finished i t ht (hdone i t ht), hs0]
  · intro i t hi
    have := h.logged i t hi (by rw [hdone i t hi]; simp)
    exact List.mem_map.mpr ⟨(i, t.s0), this, rfl⟩

/-- the acquisition order only grows at its end … -/
theorem log_prefix {a b : Sys S O} (hr : Reach a b) : ∃ ext, b.log = a.log ++ ext := by
  induction hr with
  | refl => exact ⟨[], by simp⟩
  | @tail m _ _ hstep ih =>
    obtain ⟨ext, hext⟩ := ih
    cases hstep with
    | acquire i t hi hp hc => exact ⟨ext ++ [(i, m.st)], by simp [hext]⟩
    | step i t pc f hi hp hf => exact ⟨ext, hext⟩
    | release i t pc hi hp hend => exact ⟨ext, hext⟩

/-- **… so the serial order extends real time**: a transaction that has finished (indeed: has acquired the
lock) at some moment precedes, in the serial order, every transaction that acquires the lock later. -/
theorem C14_real_time (progs : List (TxProg S O)) (st0 : S) (hpure : ∀ p ∈ progs, p.ReadPure) (a b : Sys S O)
    (ha : Reach (initSys st0 progs) a) (hab : Reach a b) (i : Nat) (t : Thread S O)
    (hi : a.threads[i]? = some t) (hfin : t.phase = .done) :
    ∃ pre ext, a.log = pre ∧ b.log = pre ++ ext ∧ i ∈ pre.map (·.1) := by
  obtain ⟨ext, hext⟩ := log_prefix hab
  have h := reach_inv progs st0 hpure a ha
  have := h.logged i t hi (by rw [hfin]; simp)
  exact ⟨a.log, ext, rfl, hext, List.mem_map.mpr ⟨(i, t.s0), this, rfl⟩⟩

/-- **No deadlock**: as long as some transaction is unfinished, a step is enabled. -/
theorem C14_no_deadlock (progs : List (TxProg S O)) (st0 : S) (hpure : ∀ p ∈ progs, p.ReadPure) (sys : Sys S O)
    (hr : Reach (initSys st0 progs) sys) (i : Nat) (t : Thread S O) (hi : sys.threads[i]? = some t) (hnd : t.phase ≠ .done) :
    ∃ sys', Step sys sys' := by
  have h := reach_inv progs st0 hpure sys hr
  -- somebody inside can move
  have move : ∀ (j : Nat) (tj : Thread S O) (pc : Nat), sys.threads[j]? = some tj → tj.phase = .body pc → ∃ sys', Step sys sys' := by
    intro j tj pc hj hp
    have hpc := (h.body j tj pc hj hp).1
    rcases Nat.lt_or_ge pc tj.prog.steps.length with hlt | hge
    · exact ⟨_, Step.step sys j tj pc tj.prog.steps[pc] hj hp (List.getElem?_eq_getElem hlt)⟩
    · exact ⟨_, Step.release sys j tj pc hj hp (by omega)⟩
  by_cases hany : anyIn sys = true
  · simp only [anyIn, List.any_eq_true] at hany
    obtain ⟨tj, hmem, hb⟩ := hany
    obtain ⟨j, hj⟩ := List.mem_iff_getElem?.mp hmem
    obtain ⟨pc, hp⟩ := (inBody_iff tj).mp hb
    exact move j tj pc hj hp
  · -- nobody inside: the unfinished thread is idle and may acquire
    have hidle : t.phase = .idle := by
      cases hph : t.phase with
      | idle => rfl
      | done => exact absurd hph hnd
      | body pc =>
        exfalso; apply hany
        simp only [anyIn, List.any_eq_true]
        exact ⟨t, List.mem_iff_getElem?.mpr ⟨i, hi⟩, inBody_body t pc hph⟩
    have hno : anyIn sys = false := by simpa using hany
    have hnw : writerIn sys = false := by
      simp only [writerIn, List.any_eq_false]
      intro x hx
      simp only [anyIn, List.any_eq_false] at hno
      have := hno x hx
      simp [this]
    have hc : canAcquire sys t.prog.mode = true := by
      cases t.prog.mode <;> simp [canAcquire, hno, hnw]
    exact ⟨_, Step.acquire sys i t hi hidle hc⟩

/-- **The hypotheses, for the code as it is now** (regenerated effect and lock facts): the transaction lock
is `db.mu`, taken in `Begin` on the side `writable` selects and released only by `Commit`/`Rollback`; no
`Tx` method other than these two touches a mutex; and no `Tx` method other than Commit/Rollback writes a
shared location — except the listed ones: a recorded finding (D-SMOVE) and a documented imprecision
(`ZRangeByRank`). The commit path writes no package-level state. (Two more exceptions were listed until they
were repaired: the sparse-mode scans sorted `db.BPTreeRootIdxes` in place, D-SORTFID, and the B+ tree
writer used a package-level `queue`, D-QUEUE.) -/
theorem C14_facts_ok :
    NutsGen.F.lockPrims = [("Tx.lock", ["DB.mu.Lock", "DB.mu.RLock"]), ("Tx.unlock", ["DB.mu.RUnlock", "DB.mu.Unlock"])] ∧
    (NutsGen.F.lockOps.filter fun p => p.1 == "Tx" && !(p.2.2.1.isEmpty && p.2.2.2.isEmpty)).map (·.2.1) = ["Commit", "Rollback"] ∧
    ((NutsGen.F.effects.filter fun p => p.1 == "Tx" && p.2.1 != "Commit" && p.2.1 != "Rollback" && !(p.2.2.1.isEmpty && p.2.2.2.isEmpty)).map
      fun p => (p.2.1, p.2.2.1)) = NutsProofs.Facts.impureTxMethods ∧
    (NutsProofs.Facts.eff "Tx" "Commit").2 = [] :=
  ⟨NutsProofs.Facts.lock_protocol_ok.1, NutsProofs.Facts.lock_protocol_ok.2.2.2.1, NutsProofs.Facts.read_pure_except.1,
   NutsProofs.Facts.globals_ok.1⟩

/-! ### a concrete system: two writers and a reader over a counter -/

def incr : Nat → Nat × Nat := fun n => (n + 1, n)
def look : Nat → Nat × Nat := fun n => (n, n)

def demo : List (TxProg Nat Nat) := [⟨.w, [incr, incr]⟩, ⟨.r, [look, look]⟩, ⟨.w, [incr]⟩]

example : ∀ p ∈ demo, p.ReadPure := by
  intro p hp
  simp only [demo, List.mem_cons, List.mem_nil_iff, or_false] at hp
  rcases hp with rfl | rfl | rfl <;> intro hm
  · cases hm
  · intro f hf s; simp only [List.mem_cons, List.mem_nil_iff, or_false] at hf; rcases hf with rfl | rfl <;> rfl
  · cases hm

example : runSerial 0 demo = (3, [[0, 1], [2, 2], [2]]) := by decide

end NutsProofs.C14
