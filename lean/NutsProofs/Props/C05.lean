/-
  C05 — Lists behave like Redis lists.  Property theorems only (helper lemmas live in Lemmas/).
-/
import Nuts.Model.ListDS
import Nuts.Spec.RList
import NutsProofs.Lemmas.LRem
import NutsProofs.Lemmas.Isolation
import NutsProofs.Pins.ListDS
import NutsProofs.Pins.TxApi
import NutsProofs.Pins.TxApiList
namespace NutsProofs.C05
open Nuts Nuts.Model Nuts.Spec

/-- The regenerated `LRange` kernel, for every machine integer: it either returns an error with an
empty Redis range, or slices exactly the Redis range, in bounds. (Before the fix of finding
D-LRANGE this needed the guard `¬(start < 0 ∧ end = 0) ∧ -size ≤ start`.) -/
theorem lrange_kernel_ok (n : Nat) (s e : Int) (hn : (n : Int) < 4611686018427387904)
    (hs : inRange64 s) (he : inRange64 e) (o : KOut)
    (ho : NutsGen.K.list_LRange.run s e n false = o) :
    (o.events = [] ∧ RList.startIdx n s > RList.stopIdx n e) ∨
    ∃ lo hi, o.events = [.slice 0 (some lo) (some hi)] ∧ 0 ≤ lo ∧ lo < hi ∧ hi ≤ n ∧
      lo = RList.startIdx n s ∧ hi = RList.stopIdx n e + 1 := by
  unfold inRange64 at *
  unfold RList.startIdx RList.stopIdx RList.norm
  unfold NutsGen.K.list_LRange.run wrap64 at ho
  simp only [Bool.false_eq_true, ↓reduceIte] at ho
  repeat' split at ho
  all_goals subst ho
  all_goals first
    | (left; refine ⟨rfl, ?_⟩; repeat' split <;> omega)
    | (right; refine ⟨_, _, rfl, by omega, by omega, by omega, ?_, ?_⟩ <;> repeat' split <;> omega)
    | omega

/-- C05 / LRange: for every list shorter than 2^62 and every pair of machine integers, `LRange`
returns the Redis range, or an error when that range is empty; it never panics. -/
theorem lrange_spec (l : List Bytes) (s e : Int) (hn : (l.length : Int) < 4611686018427387904)
    (hs : inRange64 s) (he : inRange64 e) :
    RList.Acceptable (RList.lrange l s e) (RList.lrange l s e).isEmpty (ListDS.lrangeL l false s e) := by
  unfold ListDS.lrangeL
  rcases lrange_kernel_ok l.length s e hn hs he _ rfl with ⟨h1, h2⟩ | ⟨lo, hi, h1, h2, h3, h4, h5, h6⟩
  · simp only [h1, RList.Acceptable, RList.lrange, if_pos h2, List.isEmpty_nil]
  · have h3' : lo ≤ hi := by omega
    simp only [h1, ListDS.sliceOf, h2, h3', h4, and_self, ↓reduceIte, RList.Acceptable, RList.lrange]
    have : ¬ (RList.startIdx l.length s > RList.stopIdx l.length e) := by omega
    simp only [this, ↓reduceIte, h5, h6]
    congr 2
    omega

/-- Non-vacuity and regression of the former witnesses of D-LRANGE: the two inputs that used to panic. -/
theorem lrange_neg_zero_fixed : ListDS.lrangeL [[1]] false (-1) 0 = .ok [[1]] := by decide

theorem lrange_start_below_fixed : ListDS.lrangeL [[1], [2]] false (-5) 1 = .ok [[1], [2]] := by decide

/-- A missing key is an error, never a panic. -/
theorem lrange_missing (s e : Int) : ListDS.lrangeL [] true s e = .err := by
  unfold ListDS.lrangeL NutsGen.K.list_LRange.run
  simp

/-! ### the map of lists -/

theorem get_put_self (s : ListDS.St) (k : Bytes) (v : List Bytes) : ListDS.get? (ListDS.put s k v) k = some v := by
  induction s with
  | nil => simp [ListDS.put, ListDS.get?]
  | cons p rest ih =>
    obtain ⟨k', v'⟩ := p
    by_cases h : k' = k <;> simp [ListDS.put, ListDS.get?, h, ih]

theorem get_put_other (s : ListDS.St) (k k' : Bytes) (v : List Bytes) (h : k' ≠ k) :
    ListDS.get? (ListDS.put s k v) k' = ListDS.get? s k' := by
  induction s with
  | nil => simp [ListDS.put, ListDS.get?, Ne.symm h]
  | cons p rest ih =>
    obtain ⟨k0, v0⟩ := p
    by_cases h0 : k0 = k
    · subst h0; simp [ListDS.put, ListDS.get?, Ne.symm h]
    · by_cases h1 : k0 = k'
      · subst h1; simp [ListDS.put, ListDS.get?, h0]
      · simp [ListDS.put, ListDS.get?, h0, h1, ih]

/-- the list a key holds (a missing key is the empty list, as in Redis) -/
def listOf (s : ListDS.St) (k : Bytes) : List Bytes := (ListDS.get? s k).getD []

/-- **C05 / RPush**: appends the values in order; returns the new length; other keys untouched -/
theorem rpush_spec (s : ListDS.St) (k : Bytes) (vs : List Bytes) (hv : vs ≠ []) :
    listOf (ListDS.rpush s k vs).1 k = listOf s k ++ vs ∧
    (ListDS.rpush s k vs).2 = .ok (listOf s k ++ vs).length ∧
    ∀ k', k' ≠ k → ListDS.get? (ListDS.rpush s k vs).1 k' = ListDS.get? s k' := by
  have he : vs.isEmpty = false := by cases vs with | nil => exact absurd rfl hv | cons _ _ => rfl
  unfold ListDS.rpush listOf
  simp only [he, Bool.false_eq_true, if_false, ListDS.size, get_put_self, Option.getD_some]
  exact ⟨trivial, trivial, fun k' hk' => get_put_other s k k' _ hk'⟩

/-- **C05 / LPush**: each value in turn goes to the head (so the last one pushed is first) -/
theorem lpush_spec (s : ListDS.St) (k : Bytes) (vs : List Bytes) :
    listOf (ListDS.lpush s k vs).1 k = vs.reverse ++ listOf s k ∧
    (ListDS.lpush s k vs).2 = .ok (vs.reverse ++ listOf s k).length ∧
    ∀ k', k' ≠ k → ListDS.get? (ListDS.lpush s k vs).1 k' = ListDS.get? s k' := by
  unfold ListDS.lpush listOf
  simp only [get_put_self, Option.getD_some]
  exact ⟨trivial, trivial, fun k' hk' => get_put_other s k k' _ hk'⟩

/-- **C05 / LPop**: the head, removed; an error on an empty or missing list, which stays as it is -/
theorem lpop_spec (s : ListDS.St) (k : Bytes) :
    match listOf s k with
    | [] => ListDS.lpop s k = (s, .err)
    | x :: xs => (ListDS.lpop s k).2 = .ok x ∧ listOf (ListDS.lpop s k).1 k = xs ∧
        ∀ k', k' ≠ k → ListDS.get? (ListDS.lpop s k).1 k' = ListDS.get? s k' := by
  unfold listOf ListDS.lpop
  cases hg : ListDS.get? s k with
  | none => rfl
  | some l =>
    cases l with
    | nil => rfl
    | cons x xs =>
      simp only [Option.getD_some, get_put_self]
      exact ⟨trivial, trivial, fun k' hk' => get_put_other s k k' _ hk'⟩

/-- **C05 / RPop**: the last element, removed; an error on an empty or missing list -/
theorem rpop_spec (s : ListDS.St) (k : Bytes) :
    match (listOf s k).getLast? with
    | none => ListDS.rpop s k = (s, .err)
    | some x => (ListDS.rpop s k).2 = .ok x ∧ listOf (ListDS.rpop s k).1 k = (listOf s k).dropLast ∧
        ∀ k', k' ≠ k → ListDS.get? (ListDS.rpop s k).1 k' = ListDS.get? s k' := by
  unfold listOf ListDS.rpop
  cases hg : ListDS.get? s k with
  | none => rfl
  | some l =>
    simp only [Option.getD_some]
    cases hl : l.getLast? with
    | none => rfl
    | some x =>
      simp only [get_put_self, Option.getD_some]
      exact ⟨trivial, trivial, fun k' hk' => get_put_other s k k' _ hk'⟩

/-- **C05 / LPeek, RPeek, LSize**: head, last element, length; errors exactly on empty / missing lists
(`LSize` of a key that holds an empty list is 0) -/
theorem peek_size_spec (s : ListDS.St) (k : Bytes) :
    (ListDS.lpeek s k = match listOf s k with | [] => .err | x :: _ => .ok x) ∧
    (ListDS.rpeek s k = match (listOf s k).getLast? with | none => .err | some x => .ok x) ∧
    (ListDS.size s k = match ListDS.get? s k with | none => .err | some l => .ok l.length) := by
  unfold listOf ListDS.lpeek ListDS.rpeek ListDS.size
  cases hg : ListDS.get? s k with
  | none => exact ⟨rfl, rfl, rfl⟩
  | some l =>
    cases l with
    | nil => exact ⟨rfl, rfl, rfl⟩
    | cons x xs => exact ⟨rfl, rfl, rfl⟩

/-- **C05 / LSet** (the regenerated bounds test): an index in `0 … size-1` of an existing key stores the
value there; every other index — negative ones included, which Redis would count from the tail — and a
missing key are reported as an error and change nothing; never a panic -/
theorem lset_spec (s : ListDS.St) (k : Bytes) (idx : Int) (v : Bytes) :
    if (ListDS.get? s k).isSome ∧ 0 ≤ idx ∧ idx < (listOf s k).length then
      (ListDS.lset s k idx v).2 = .ok () ∧ listOf (ListDS.lset s k idx v).1 k = (listOf s k).set idx.toNat v ∧
      RList.lset (listOf s k) idx v = some ((listOf s k).set idx.toNat v)
    else ListDS.lset s k idx v = (s, .err) := by
  unfold ListDS.lset listOf NutsGen.K.list_LSet.run
  cases hg : ListDS.get? s k with
  | none => simp
  | some l =>
    simp only [Option.isSome_some, Option.getD_some, true_and, if_true]
    by_cases h1 : idx ≥ (l.length : Int)
    · have : ¬ (0 ≤ idx ∧ idx < (l.length : Int)) := by omega
      simp [h1, this]
    · by_cases h2 : idx < 0
      · have : ¬ (0 ≤ idx ∧ idx < (l.length : Int)) := by omega
        simp [h1, h2, this]
      · have h3 : 0 ≤ idx ∧ idx < (l.length : Int) := by omega
        simp only [h1, h2, if_false, h3, and_self, if_true, get_put_self, Option.getD_some, true_and]
        unfold RList.lset RList.norm
        simp [h2, h3]

/-- **C05 / LTrim**: keeps exactly the Redis range; an empty range or a missing key is an error that
changes nothing; never a panic (list shorter than 2^62, machine-integer bounds) -/
theorem ltrim_spec (s : ListDS.St) (k : Bytes) (st en : Int) (hs : inRange64 st) (he : inRange64 en)
    (hn : ((listOf s k).length : Int) < 4611686018427387904) :
    match ListDS.get? s k with
    | none => ListDS.ltrim s k st en = (s, .err)
    | some l =>
      if RList.lrange l st en = [] then ListDS.ltrim s k st en = (s, .err)
      else (ListDS.ltrim s k st en).2 = .ok () ∧ listOf (ListDS.ltrim s k st en).1 k = RList.lrange l st en := by
  unfold ListDS.ltrim
  cases hg : ListDS.get? s k with
  | none => rfl
  | some l =>
    simp only []
    have hl : (l.length : Int) < 4611686018427387904 := by unfold listOf at hn; rw [hg] at hn; exact hn
    have := lrange_spec l st en hl hs he
    cases hr : ListDS.lrangeL l false st en with
    | ok r =>
      rw [hr] at this
      simp only [RList.Acceptable] at this
      subst this
      -- the kernel returns `ok` only on a non-empty range
      have hne : RList.lrange l st en ≠ [] := by
        intro hemp
        unfold ListDS.lrangeL at hr
        rcases lrange_kernel_ok l.length st en hl hs he _ rfl with ⟨h1, _⟩ | ⟨lo, hi, h1, h2, h3, h4, h5, h6⟩
        · simp only [h1] at hr; cases hr
        · unfold RList.lrange at hemp
          have : ¬ (RList.startIdx l.length st > RList.stopIdx l.length en) := by omega
          simp only [this, if_false] at hemp
          have hlen := congrArg List.length hemp
          simp only [List.length_take, List.length_drop, List.length_nil] at hlen
          omega
      simp only [hne, if_false, listOf, get_put_self, Option.getD_some, and_self]
    | err =>
      rw [hr] at this
      simp only [RList.Acceptable, List.isEmpty_iff] at this
      simp [this]
    | panic => rw [hr] at this; exact absurd this (by simp [RList.Acceptable])

/-- **C05 / LRem**: Redis `LREM` — the first `count` occurrences from the head (`count > 0`), from the tail
(`count < 0`), or all of them (`count = 0`) are removed, the number removed is returned and the remaining
elements keep their order; a count above the size, and a missing key, are errors that change nothing; never a
panic (every machine integer as count — `MinInt64`, whose negation overflows, included: the fixed finding
D-LREM-MININT — and lists shorter than 2^62) -/
theorem lrem_spec (s : ListDS.St) (k : Bytes) (count : Int) (v : Bytes)
    (hn : ((listOf s k).length : Int) < 4611686018427387904) :
    match ListDS.get? s k with
    | none => ListDS.lrem s k count v = (s, .err)
    | some l =>
      if count > (l.length : Int) then ListDS.lrem s k count v = (s, .err)
      else (ListDS.lrem s k count v).2 = .ok (RList.lrem l count v).2 ∧
           listOf (ListDS.lrem s k count v).1 k = (RList.lrem l count v).1 ∧
           ∀ k', k' ≠ k → ListDS.get? (ListDS.lrem s k count v).1 k' = ListDS.get? s k' := by
  unfold ListDS.lrem
  cases hg : ListDS.get? s k with
  | none => rfl
  | some l =>
    have hl : (l.length : Int) < 4611686018427387904 := by unfold listOf at hn; rw [hg] at hn; exact hn
    simp only []
    rw [LRem.lremL_spec l count v hl]
    by_cases hbig : count > (l.length : Int)
    · simp [hbig]
    · simp only [hbig, if_false, listOf, get_put_self, Option.getD_some, true_and]
      exact fun k' hk' => get_put_other s k k' _ hk'

/-- the count whose negation overflows: five elements, all of them removed from the tail side, no panic -/
theorem lrem_minint_fixed :
    ListDS.lremL [[1], [2], [1], [1], [3]] (-9223372036854775808) [1] = .ok ([[2], [3]], 3) := by decide

/-! ### lists through transactions: every history -/

open Nuts.Model.DB NutsProofs.Reopen NutsProofs.ReopenAll NutsProofs.Isolation in
/-- **C05, lists through transactions, every history.** After any history of successfully committed
transactions over all four structures, with reopens (key+value mode), the list structure of bucket `b` is what
the committed list records of that bucket produce, applied in commit order to the empty structure by the
operations of `ds/list` — each of which is the Redis operation by the theorems above (`rpush_spec`,
`lpush_spec`, `lpop_spec`, `rpop_spec`, `lrem_spec`, `lset_spec`, `ltrim_spec`) — whatever other buckets and
structures did in between. -/
theorem C05_lists_after_every_history (opt0 : Opts) (ops : List OpA) (hok : OpsOkA (openDB opt0 []).1 ops) (b : Bytes) :
    let s := ops.foldl stepA (openDB opt0 []).1
    (aget? s.lists b).getD [] =
      ((((allRecs s.files).map (·.1)).filter fun r => r.bucket == b).filter fun r => r.ds == dsList).foldl
        (fun l r => (applyList l r).1) [] := by
  intro s
  exact (structures_of_own_records s (allInv_ops ops _ (allInv_init opt0) hok) b).1

open Nuts.Model.DB in
/-- a committed push or pop record is the Redis `LPUSH` / `RPUSH` / `LPOP` / `RPOP` of one element on its key
and leaves every other key of the bucket alone -/
theorem C05_push_pop_record_is_redis (l : ListDS.St) (r : Rec) (k' : Bytes)
    (hf : r.flag = flagLPush ∨ r.flag = flagRPush ∨ r.flag = flagLPop ∨ r.flag = flagRPop) :
    listOf (applyList l r).1 k' =
      if k' = r.key then
        (if r.flag = flagLPush then r.value :: listOf l k'
         else if r.flag = flagRPush then listOf l k' ++ [r.value]
         else if r.flag = flagLPop then (listOf l k').tail
         else (listOf l k').dropLast)
      else listOf l k' := by
  have other : ∀ (l' : ListDS.St), (∀ k'', k'' ≠ r.key → ListDS.get? l' k'' = ListDS.get? l k'') → k' ≠ r.key →
      listOf l' k' = listOf l k' := by
    intro l' h hne
    unfold listOf; rw [h k' hne]
  rcases hf with hf | hf | hf | hf
  · have happ : (applyList l r).1 = (ListDS.lpush l r.key [r.value]).1 := by
      have h1 : (r.flag == flagLPush) = true := by simp [hf]
      simp only [applyList, h1, if_true]
    rw [happ, if_pos hf]
    obtain ⟨a, _, c⟩ := lpush_spec l r.key [r.value]
    by_cases hk : k' = r.key
    · subst hk; simpa using a
    · rw [if_neg hk]; exact other _ c hk
  · have happ : (applyList l r).1 = (ListDS.rpush l r.key [r.value]).1 := by
      have h0 : (r.flag == flagLPush) = false := by rw [hf]; decide
      have h1 : (r.flag == flagRPush) = true := by simp [hf]
      simp only [applyList, h0, h1, if_true, Bool.false_eq_true, if_false]
    have e0 : ¬ r.flag = flagLPush := by rw [hf]; decide
    rw [happ, if_neg e0, if_pos hf]
    obtain ⟨a, _, c⟩ := rpush_spec l r.key [r.value] (by simp)
    by_cases hk : k' = r.key
    · subst hk; simpa using a
    · rw [if_neg hk]; exact other _ c hk
  · have happ : (applyList l r).1 = (ListDS.lpop l r.key).1 := by
      have h0 : (r.flag == flagLPush) = false := by rw [hf]; decide
      have h1 : (r.flag == flagRPush) = false := by rw [hf]; decide
      have h2 : (r.flag == flagLRem) = false := by rw [hf]; decide
      have h3 : (r.flag == flagLPop) = true := by simp [hf]
      simp only [applyList, h0, h1, h2, h3, if_true, Bool.false_eq_true, if_false]
    have e0 : ¬ r.flag = flagLPush := by rw [hf]; decide
    have e1 : ¬ r.flag = flagRPush := by rw [hf]; decide
    rw [happ, if_neg e0, if_neg e1, if_pos hf]
    have hs := lpop_spec l r.key
    by_cases hk : k' = r.key
    · subst hk
      simp only [if_true]
      cases hl : listOf l r.key with
      | nil => rw [hl] at hs; simp only at hs; rw [hs]; simp [hl]
      | cons x xs => rw [hl] at hs; simp only at hs; simpa using hs.2.1
    · rw [if_neg hk]
      cases hl : listOf l r.key with
      | nil => rw [hl] at hs; simp only at hs; rw [hs]
      | cons x xs => rw [hl] at hs; simp only at hs; exact other _ hs.2.2 hk
  · have happ : (applyList l r).1 = (ListDS.rpop l r.key).1 := by
      have h0 : (r.flag == flagLPush) = false := by rw [hf]; decide
      have h1 : (r.flag == flagRPush) = false := by rw [hf]; decide
      have h2 : (r.flag == flagLRem) = false := by rw [hf]; decide
      have h3 : (r.flag == flagLPop) = false := by rw [hf]; decide
      have h4 : (r.flag == flagRPop) = true := by simp [hf]
      simp only [applyList, h0, h1, h2, h3, h4, if_true, Bool.false_eq_true, if_false]
    have e0 : ¬ r.flag = flagLPush := by rw [hf]; decide
    have e1 : ¬ r.flag = flagRPush := by rw [hf]; decide
    have e2 : ¬ r.flag = flagLPop := by rw [hf]; decide
    rw [happ, if_neg e0, if_neg e1, if_neg e2]
    have hs := rpop_spec l r.key
    by_cases hk : k' = r.key
    · subst hk
      simp only [if_true]
      cases hl : (listOf l r.key).getLast? with
      | none =>
        rw [hl] at hs; simp only at hs; rw [hs]
        have : listOf l r.key = [] := by simpa using hl
        simp [this]
      | some x => rw [hl] at hs; simp only at hs; simpa using hs.2.1
    · rw [if_neg hk]
      cases hl : (listOf l r.key).getLast? with
      | none => rw [hl] at hs; simp only at hs; rw [hs]
      | some x => rw [hl] at hs; simp only at hs; exact other _ hs.2.2 hk

/-- **regenerated tie.** On this run, the list calls of the transactional API (validation against the committed list, the key / value encoding of `LSet`, `LRem`, `LTrim`, the flag of each queued record) and `tx.put` are the source lines `Nuts.Model.Tx` was written from (`NutsProofs.Facts.expectedTxApiCore`, `expectedTxApiList`). -/
theorem C05_tx_api_regenerated :
    NutsProofs.Facts.txApiOfCore = NutsProofs.Facts.expectedTxApiCore ∧
    NutsProofs.Facts.txApiOfList = NutsProofs.Facts.expectedTxApiList :=
  ⟨NutsProofs.Facts.tx_api_core_ok, NutsProofs.Facts.tx_api_list_ok⟩

/-- **regenerated tie.** every condition, loop and call of ds/list/list.go is, on this run, the source `Nuts.Model.ListDS` was written from (`NutsProofs.Facts.expectedListStmts`); the index arithmetic of `LRange` / `LSet` / `Ltrim` is additionally regenerated as kernels. -/
theorem C05_list_statements_regenerated : NutsGen.F.listStmts = NutsProofs.Facts.expectedListStmts :=
  NutsProofs.Facts.list_stmts_ok

end NutsProofs.C05
