/-
  C05 — Lists behave like Redis lists.  Property theorems only (helper lemmas live in Lemmas/).
-/
import Nuts.Model.ListDS
import Nuts.Spec.RList
namespace NutsProofs.C05
open Nuts Nuts.Model Nuts.Spec

/-- The regenerated `LRange` kernel, for every machine integer: it either returns an error with an
empty Redis range, or slices exactly the Redis range, in bounds. (Before the fix of finding
D-LRANGE this needed the guard `¬(start < 0 ∧ end = 0) ∧ -size ≤ start`.) -/
theorem lrange_kernel_ok (n : Nat) (s e : Int) (hn : (n : Int) < 4611686018427387904)
    (hs : inRange64 s) (he : inRange64 e) (o : KOut)
    (ho : NutsGen.K.list_LRange.run s e n false = o) :
    (o.events = [] ∧ RList.startIdx n s > RList.stopIdx n e) ∨
    ∃ lo hi, o.events = [.slice 0 (some lo) (some hi)] ∧ 0 ≤ lo ∧ lo < hi ∧ hi ≤ n ∧
      lo = RList.startIdx n s ∧ hi = RList.stopIdx n e + 1 := by
  unfold inRange64 at *
  unfold RList.startIdx RList.stopIdx RList.norm
  unfold NutsGen.K.list_LRange.run wrap64 at ho
  simp only [Bool.false_eq_true, ↓reduceIte] at ho
  repeat' split at ho
  all_goals subst ho
  all_goals first
    | (left; refine ⟨rfl, ?_⟩; repeat' split <;> omega)
    | (right; refine ⟨_, _, rfl, by omega, by omega, by omega, ?_, ?_⟩ <;> repeat' split <;> omega)
    | omega

/-- C05 / LRange: for every list shorter than 2^62 and every pair of machine integers, `LRange`
returns the Redis range, or an error when that range is empty; it never panics. -/
theorem lrange_spec (l : List Bytes) (s e : Int) (hn : (l.length : Int) < 4611686018427387904)
    (hs : inRange64 s) (he : inRange64 e) :
    RList.Acceptable (RList.lrange l s e) (RList.lrange l s e).isEmpty (ListDS.lrangeL l false s e) := by
  unfold ListDS.lrangeL
  rcases lrange_kernel_ok l.length s e hn hs he _ rfl with ⟨h1, h2⟩ | ⟨lo, hi, h1, h2, h3, h4, h5, h6⟩
  · simp only [h1, RList.Acceptable, RList.lrange, if_pos h2, List.isEmpty_nil]
  · have h3' : lo ≤ hi := by omega
    simp only [h1, ListDS.sliceOf, h2, h3', h4, and_self, ↓reduceIte, RList.Acceptable, RList.lrange]
    have : ¬ (RList.startIdx l.length s > RList.stopIdx l.length e) := by omega
    simp only [this, ↓reduceIte, h5, h6]
    congr 2
    omega

/-- Non-vacuity and regression of the former witnesses of D-LRANGE: the two inputs that used to panic. -/
theorem lrange_neg_zero_fixed : ListDS.lrangeL [[1]] false (-1) 0 = .ok [[1]] := by decide

theorem lrange_start_below_fixed : ListDS.lrangeL [[1], [2]] false (-5) 1 = .ok [[1], [2]] := by decide

/-- A missing key is an error, never a panic. -/
theorem lrange_missing (s e : Int) : ListDS.lrangeL [] true s e = .err := by
  unfold ListDS.lrangeL NutsGen.K.list_LRange.run
  simp

end NutsProofs.C05
