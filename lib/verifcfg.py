"""Per-property configuration of ./check: Lean modules, correspondence suites and budgets."""

TRUSTED_BASE = [
    "Lean 4.33.0 kernel (thorough tier: re-checked with leanchecker)",
    "tools/extract (Go SSA -> Lean kernels and facts) and golang.org/x/tools/go/ssa v0.29.0",
    "tools/harness (Go, drives the real code in-process) and the comparer in ./check",
    "Lean compiler for the driver executable nutsdriver (model + spec, core-only)",
    "hand-written model outside the regenerated kernels: tied by the correspondence campaign only",
]

ASSUMPTIONS = [
    "no sorry/admit/axiom/native_decide/bv_decide in any Lean source (grep'ed on every run)",
    "error text is not compared, only error presence",
]


def S(name, quick, thorough, **kw):
    d = dict(name=name, quick=quick, thorough=thorough)
    d.update(kw)
    return d


PROPS = {
    'C05': dict(
        modules=['NutsProofs.Props.C05'],
        suites=[S('list-ds', (150, 40), (4000, 60))],
        assumptions=['lists shorter than 2^62 elements'],
    ),
}
