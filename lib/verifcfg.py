"""Per-property configuration of ./check: Lean modules, correspondence suites and budgets."""

TRUSTED_BASE = [
    "Lean 4.33.0 kernel (thorough tier: re-checked with leanchecker)",
    "tools/extract (Go SSA -> Lean kernels and facts) and golang.org/x/tools/go/ssa v0.29.0",
    "tools/harness (Go, drives the real code in-process) and the comparer in ./check",
    "Lean compiler for the driver executable nutsdriver (model + spec, core-only)",
    "hand-written model outside the regenerated kernels: tied by the correspondence campaign only",
]

ASSUMPTIONS = [
    "no sorry/admit/axiom/native_decide/bv_decide in any Lean source (grep'ed on every run)",
    "error text is not compared, only error presence",
]


def S(name, quick, thorough, **kw):
    d = dict(name=name, quick=quick, thorough=thorough)
    d.update(kw)
    return d


PROPS = {
    'C01': dict(modules=['NutsProofs.Props.C01'], suites=[S('db-kv', (60, 150), (1500, 200)), S('db-kvbig', (30, 200), (600, 300)), S('bpt-ds', (40, 200), (800, 400))]),
    'C02': dict(modules=['NutsProofs.Props.C02'], suites=[S('db-sparse', (80, 150), (2000, 200))],
                assumptions=['the on-disk node files (.bptidx: data offsets as keys) are abstracted to the content of the tree they were written from; validated by the correspondence only',
                             'key/value operations only (list/set/sorted-set are not supported by the library in this mode)']),
    'C03': dict(modules=['NutsProofs.Props.C03'], suites=[S('db-kv', (100, 150), (1500, 200)), S('db-kvbig', (40, 200), (800, 300)), S('bpt-ds', (40, 200), (800, 400))]),
    'C04': dict(modules=['NutsProofs.Props.C04'], suites=[S('db-iso', (60, 150), (1500, 200)), S('db-isoset', (40, 200), (800, 300))]),
    'C05': dict(modules=['NutsProofs.Props.C05'],
                suites=[S('list-ds', (150, 40), (4000, 60)), S('db-list', (50, 150), (1000, 200))],
                assumptions=['lists shorter than 2^62 elements']),
    'C06': dict(modules=['NutsProofs.Props.C06'], suites=[S('db-set', (60, 150), (1500, 200))]),
    'C07': dict(modules=['NutsProofs.Props.C07'], suites=[S('db-zset', (60, 150), (1500, 200)), S('zset-ds', (60, 300), (1500, 500))]),
    'C08': dict(modules=['NutsProofs.Props.C08'], suites=[S('db-mixed', (60, 200), (1500, 250)), S('db-list', (40, 200), (800, 250)), S('db-structs', (30, 200), (600, 250))]),
    'C09': dict(modules=['NutsProofs.Props.C09'], suites=[S('db-crash', (40, 120), (800, 200)), S('db-kv', (30, 150), (500, 200)), S('db-sparse', (40, 150), (600, 200))]),
    'C10': dict(modules=['NutsProofs.Props.C10'], suites=[S('db-crash', (50, 120), (1200, 200))]),
    'C11': dict(modules=['NutsProofs.Props.C11'], suites=[S('db-crash', (50, 120), (1200, 200)), S('db-mcrash', (40, 150), (800, 200))]),
    'C12': dict(modules=['NutsProofs.Props.C12'], suites=[S('db-mixed', (60, 150), (1500, 200))]),
    'C13': dict(modules=['NutsProofs.Props.C13'], suites=[S('db-structs', (40, 150), (1000, 200)), S('db-list', (40, 150), (1000, 200)), S('db-kv', (30, 150), (500, 200))]),
    'C14': dict(modules=['NutsProofs.Props.C14'], suites=[],
                conc=[dict(name='kv', quick='-profile kv -workers 8 -txs 25 -dbs 2 -mode 0', thorough='-profile kv -workers 16 -txs 60 -dbs 3 -mode 0', rounds=dict(quick=1, thorough=6)),
                      dict(name='kv-keyonly', quick='-profile kv -workers 8 -txs 25 -dbs 2 -mode 1', thorough='-profile kv -workers 16 -txs 60 -dbs 3 -mode 1', rounds=dict(quick=1, thorough=6)),
                      # judged line by line in lock order: without SMove*, whose in-place mutation of the committed set index under
                      # the read lock (finding D-SMOVE, predicted by the effect facts) makes concurrent readers' results schedule-dependent
                      dict(name='structs', quick='-profile structs -nosmove -workers 8 -txs 25 -dbs 2 -mode 0', thorough='-profile structs -nosmove -workers 16 -txs 60 -dbs 3 -mode 0', rounds=dict(quick=1, thorough=6)),
                      # with SMove*: race detector only; its reports on SMove* are the known finding
                      dict(name='structs-smove-raceonly', quick='-profile structs -workers 8 -txs 25 -dbs 2 -mode 0', thorough='-profile structs -workers 16 -txs 60 -dbs 3 -mode 0', raceonly=True,
                           rounds=dict(quick=1, thorough=3), known_races=[('D-SMOVE', r'SMoveBy(One|Two)Bucket')]),
                      dict(name='sparse-raceonly', quick='-profile kv -workers 6 -txs 20 -dbs 2 -mode 2', thorough='-profile kv -workers 12 -txs 50 -dbs 3 -mode 2', raceonly=True,
                           rounds=dict(quick=1, thorough=3))],
                assumptions=['the Go memory model (lock => happens-before), the runtime scheduler and the soundness of the effect extraction are outside the Lean model: the race detector and the lock-order replay are a search for failures there',
                             'user code that calls Update inside View (re-entrant locking) is excluded']),
    'C17': dict(modules=['NutsProofs.Props.C17'], suites=[],
                conc=[dict(name='merge', quick='-profile mergekv -workers 6 -txs 30 -merge -mode 0', thorough='-profile mergekv -workers 12 -txs 60 -merge -mode 0', rounds=dict(quick=1, thorough=5),
                           known_races=[('D-MERGE-NOLOCK', r'\(\*DB\)\.Merge|reWriteData|getPendingMergeEntries|getRecordFromKey')])],
                assumptions=['the property is false of the code (finding D-MERGE-NOLOCK): the check reports every race and every divergence that is not explained by the unlocked Merge']),
    'C18': dict(modules=['NutsProofs.Props.C18'], suites=[S('db-merge', (40, 150), (800, 200)), S('db-mixed', (30, 150), (600, 200)), S('db-kv', (20, 150), (400, 200))],
                conc=[dict(name='backup', quick='-profile backup -workers 6 -txs 30 -backup -mode 0', thorough='-profile backup -workers 12 -txs 60 -backup -mode 0', rounds=dict(quick=2, thorough=8)),
                      dict(name='backup-keyonly', quick='-profile backup -workers 6 -txs 30 -backup -mode 1', thorough='-profile backup -workers 12 -txs 60 -backup -mode 1', rounds=dict(quick=1, thorough=4))],
                assumptions=['coherence of file reads with a shared mapping (MMap mode) is OS behaviour outside the model']),
    'C15': dict(modules=['NutsProofs.Props.C15'], suites=[S('db-merge', (60, 150), (1500, 200))]),
    'C19': dict(modules=['NutsProofs.Props.C19'],
                suites=[S('db-optskv', (64, 120), (1600, 200)), S('db-optsmixed', (64, 120), (1600, 200))],
                assumptions=['cases come in groups of 16 (key/value scripts: RWMode x StartFileLoadingMode x SyncEnable x the two RAM index modes) or 8 (all structures, key+value mode) that run the same generated script; each run is compared with the one model, which forgets the I/O options at Open',
                             'sparse index mode is not modelled: its agreement on key/value operations is not checked']),
    'C20': dict(modules=['NutsProofs.Props.C20'],
                suites=[S('api-fuzz', (60, 200), (1500, 250)), S('db-mixed', (30, 150), (600, 200)), S('db-kv', (30, 150), (600, 200)),
                        S('db-structs', (20, 150), (500, 200)), S('db-set', (30, 150), (600, 200)), S('list-ds', (80, 40), (2000, 60))],
                assumptions=['panic-freedom is proved for the regenerated integer kernels (all machine integers) and for finished transactions in the model; panics the Go runtime can raise in code the model abstracts (nil maps/files, NaN ordering in the skiplist, regexp) are searched by the api-fuzz suite (a search, labelled as such), not proved',
                             'lists shorter than 2^62 elements']),
    'C21': dict(modules=['NutsProofs.Props.C21'],
                suites=[S('codec', (4, 500), (40, 4000), env_thorough={'VERIF_CODEC_ALLBITS': '1'}, shards=10),
                        S('db-sparse', (40, 150), (600, 200))],  # bucket metas and root-index records as Commit writes, rewrites and Open reads them
                assumptions=['field values within their Go types (sizes < 2^32, ids and timestamps < 2^64); keys non-empty (tx.put rejects empty keys)',
                             'a flip inside a size field, and truncation, are enumerated against the implementation (tests), not proved: whether the CRC of the differently delimited string collides depends on the following bytes']),
    'C22': dict(modules=['NutsProofs.Props.C22'], suites=[S('modes', (250, 5), (4000, 5))],
                assumptions=['the listing-level model decides the mode check only; an accepted Open is then the business of the database model',
                             'sparse-mode workloads are generated (key/value operations) but their contents are not modelled']),
    'C16': dict(modules=['NutsProofs.Props.C16'], suites=[S('db-mcrash', (50, 150), (1200, 200))]),
}
