"""Validity rules for evidence/<id>.json, usable without third-party modules.

`problems(ev, claimed_level)` returns a list of strings (empty = the file is a valid record for
its level). The rules are those of /root/.vp/EVIDENCE.schema.json (a copy of the relevant part is
re-stated here so that ./check can test its own output with the system python, which has no
jsonschema) plus the consistency rules the schema states in prose:
  * a proof-level record has discharged == obligations (an undischarged obligation is a violation
    and must show in `violations`);
  * violations == 0 goes with every obligation discharged, and the other way round;
  * counts are integers, samples is a non-empty list.
tools/selfcheck.py additionally validates against the JSON schema itself when jsonschema is
importable (python3-vt).
"""

LEVELS = ('exploration', 'fault_enumeration', 'model_checking', 'proof', 'translation_validation', 'other')


def _int(x):
    return isinstance(x, int) and not isinstance(x, bool)


def problems(ev, prop=None, claimed_level=None):
    out = []
    if not isinstance(ev, dict):
        return ['not a JSON object']
    for k in ('property_id', 'tier', 'seed', 'level', 'coverage', 'wall_s'):
        if k not in ev:
            out.append('missing key %s' % k)
    if out:
        return out
    if prop is not None and ev['property_id'] != prop:
        out.append('property_id %r is not %r' % (ev['property_id'], prop))
    if ev['tier'] not in ('quick', 'thorough'):
        out.append('tier %r' % (ev['tier'],))
    if not _int(ev['seed']):
        out.append('seed is not an integer')
    if ev['level'] not in LEVELS:
        out.append('level %r' % (ev['level'],))
    if claimed_level is not None and ev['level'] != claimed_level:
        out.append('level %r differs from the level claimed in MANIFEST.json (%r)' % (ev['level'], claimed_level))
    if not isinstance(ev['wall_s'], (int, float)) or isinstance(ev['wall_s'], bool):
        out.append('wall_s is not a number')
    c = ev['coverage']
    if not isinstance(c, dict):
        return out + ['coverage is not an object']
    for k in ('evaluations', 'distinct_nontrivial', 'states', 'transitions', 'traces_validated_against_impl',
              'obligations', 'discharged', 'programs', 'disagreements_checked'):
        if k in c and (not _int(c[k]) or c[k] < 0):
            out.append('coverage.%s is not a non-negative integer' % k)
    if 'samples' in c and (not isinstance(c['samples'], list) or not c['samples']):
        out.append('coverage.samples is not a non-empty list')
    if out:
        return out
    if ev['level'] == 'proof':
        own = all(k in c for k in ('obligations', 'discharged', 'checker_cmd', 'trusted_base'))
        if own:
            if c['obligations'] < 1:
                out.append('coverage.obligations < 1')
            if c['discharged'] < 1:
                out.append('coverage.discharged < 1')
            if not isinstance(c['checker_cmd'], str) or not c['checker_cmd'].strip():
                out.append('coverage.checker_cmd is empty')
            if not isinstance(c['trusted_base'], list) or not all(isinstance(x, str) for x in c['trusted_base']):
                out.append('coverage.trusted_base is not a list of strings')
        else:
            if c.get('evaluations', 0) < 1 or c.get('distinct_nontrivial', 0) < 2:
                out.append('proof-level record without obligations/discharged/checker_cmd/trusted_base and without evaluations>=1, distinct_nontrivial>=2')
    elif ev['level'] in ('exploration', 'fault_enumeration'):
        if c.get('evaluations', 0) < 1 or c.get('distinct_nontrivial', 0) < 2 or not isinstance(c.get('rule'), str) or not c.get('samples'):
            out.append('exploration-style keys missing or too small (evaluations, distinct_nontrivial, rule, samples)')
    viol = ev.get('violations', 0)
    if not _int(viol) or viol < 0:
        out.append('violations is not a non-negative integer')
        return out
    if 'obligations' in c and 'discharged' in c:
        if c['discharged'] > c['obligations']:
            out.append('coverage.discharged (%d) > obligations (%d)' % (c['discharged'], c['obligations']))
        if viol == 0 and c['discharged'] != c['obligations']:
            out.append('coverage.discharged (%d) != obligations (%d) in a record without violations' % (c['discharged'], c['obligations']))
        lst = c.get('obligation_list')
        if isinstance(lst, list):
            if len(lst) != c['obligations']:
                out.append('obligation_list has %d entries, obligations says %d' % (len(lst), c['obligations']))
            n = sum(1 for o in lst if isinstance(o, dict) and o.get('discharged') is True)
            if n != c['discharged']:
                out.append('obligation_list has %d discharged entries, discharged says %d' % (n, c['discharged']))
    return out


def committable(ev, prop=None, claimed_level=None):
    """problems + the rule for a file that is committed as the record of the unchanged tree:
    no violation, every obligation discharged."""
    out = problems(ev, prop, claimed_level)
    if out:
        return out
    c = ev['coverage']
    if ev.get('violations', 0) != 0:
        out.append('violations = %d: this is the record of a failing run, not of the unchanged tree' % ev['violations'])
    if 'obligations' in c and c.get('discharged') != c['obligations']:
        out.append('coverage.discharged (%s) != obligations (%s)' % (c.get('discharged'), c['obligations']))
    return out
