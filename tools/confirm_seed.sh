#!/bin/sh
# confirm_seed.sh <id> <worktree>: confirm a candidate seeded change left by a sub-agent in <worktree>/.seed/
#   (patch.diff, seed_demo_test.go, NOTES.md) and, when confirmed, copy it to /verif/seeded/<id>/.
# Confirms: patch applies to a clean checkout; go build; unedited suite passes with the patch;
# the demo fails with the patch and passes without it.
set -u
id=$1; wt=$2
export GOFLAGS=-mod=mod GOPROXY=off GOSUMDB=off GOTOOLCHAIN=local
cd "$wt" || exit 2
git checkout -q -- . ; git clean -fdq -e .seed
[ -f .seed/patch.diff ] || { echo "$id: no patch"; exit 2; }
first=$(head -1 .seed/seed_demo_test.go)
pkgdir=.
case "$first" in *ds/list*) pkgdir=ds/list;; *ds/set*) pkgdir=ds/set;; *ds/zset*) pkgdir=ds/zset;; esac
grep -q '^package nutsdb' .seed/seed_demo_test.go && pkgdir=.
grep -q '^package list' .seed/seed_demo_test.go && pkgdir=ds/list
grep -q '^package set' .seed/seed_demo_test.go && pkgdir=ds/set
grep -q '^package zset' .seed/seed_demo_test.go && pkgdir=ds/zset
tags=''; grep -q 'go:build verif' .seed/seed_demo_test.go && tags='-tags verif'
# demo passes on the clean tree
cp .seed/seed_demo_test.go $pkgdir/seed_demo_test.go
if ! (cd $pkgdir && go test $tags -vet=off -count=1 -run 'SeedDemo' . >/tmp/seed-$id-clean.log 2>&1); then echo "$id: demo FAILS on the clean tree"; rm -f $pkgdir/seed_demo_test.go; exit 1; fi
grep -q '^ok' /tmp/seed-$id-clean.log || { echo "$id: demo did not run on the clean tree"; cat /tmp/seed-$id-clean.log | tail -3; }
rm -f $pkgdir/seed_demo_test.go
git apply .seed/patch.diff || { echo "$id: patch does not apply"; exit 1; }
go build ./... || { echo "$id: does not build"; git checkout -q -- .; exit 1; }
go build -tags verif ./... || { echo "$id: does not build with -tags verif"; git checkout -q -- .; exit 1; }
if ! go test -vet=off -count=1 ./... >/tmp/seed-$id-suite.log 2>&1; then echo "$id: suite FAILS with the patch"; tail -5 /tmp/seed-$id-suite.log; git checkout -q -- .; exit 1; fi
cp .seed/seed_demo_test.go $pkgdir/seed_demo_test.go
if (cd $pkgdir && go test $tags -vet=off -count=1 -run 'SeedDemo' . >/tmp/seed-$id-patched.log 2>&1); then echo "$id: demo PASSES with the patch (not a seed)"; rm -f $pkgdir/seed_demo_test.go; git checkout -q -- .; exit 1; fi
rm -f $pkgdir/seed_demo_test.go
git checkout -q -- .
mkdir -p /verif/seeded/$id
cp .seed/patch.diff /verif/seeded/$id/patch.diff
cp .seed/seed_demo_test.go /verif/seeded/$id/demo_test.go.txt
cp .seed/NOTES.md /verif/seeded/$id/NOTES.md
echo "$id: CONFIRMED (pkgdir=$pkgdir): applies, builds (also -tags verif), suite ok, demo fails with / passes without"
rm -f /tmp/seed-$id-*.log
