module nutsverif

go 1.23

require (
	github.com/xujiajun/nutsdb v0.0.0
	golang.org/x/tools v0.29.0
)

require (
	golang.org/x/mod v0.22.0 // indirect
	golang.org/x/sync v0.10.0 // indirect
)

replace github.com/xujiajun/nutsdb => /repo

replace golang.org/x/sys v0.0.0-20181221143128-b4a75ba826a6 => github.com/golang/sys v0.0.0-20181221143128-b4a75ba826a6
