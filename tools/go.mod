module nutsverif

go 1.23

require (
	github.com/xujiajun/nutsdb v0.0.0
	golang.org/x/tools v0.29.0
)

require (
	github.com/bwmarrin/snowflake v0.3.0 // indirect
	github.com/xujiajun/mmap-go v1.0.1 // indirect
	github.com/xujiajun/utils v0.0.0-20190123093513-8bf096c4f53b // indirect
	golang.org/x/mod v0.22.0 // indirect
	golang.org/x/sync v0.10.0 // indirect
	golang.org/x/sys v0.29.0 // indirect
)

replace github.com/xujiajun/nutsdb => /repo

replace golang.org/x/sys v0.0.0-20181221143128-b4a75ba826a6 => github.com/golang/sys v0.0.0-20181221143128-b4a75ba826a6
