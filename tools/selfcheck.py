#!/usr/bin/env python3
"""
tools/selfcheck.py [--tier quick|thorough] [--seed N] [--no-run] [ids...]

Exercises /verif the way it is used from a fresh restore, and refuses stale records:

  1. MANIFEST.json validates against /root/.vp/MANIFEST.schema.json (when jsonschema is importable),
     every claimed property has a configuration in lib/verifcfg.py, every evidence file in evidence/
     belongs to a claimed property, claimed and not_applicable are disjoint and cover properties.jsonl.
  2. for every claimed check: the evidence file is removed, the manifest's command is run with
     VERIF_SEED / VERIF_TIER exported, and the run must exit 0, print no VIOLATION line and rewrite
     the evidence file.
  3. every evidence file must be a valid record for the level claimed (JSON schema when available,
     plus lib/evidencecheck.committable: violations = 0, discharged = obligations, obligation_list
     consistent with the counts).
  4. `git status` must show no evidence file that differs from the committed one in anything but
     timing (reported as a reminder to commit, not as a failure, with --no-run it is a failure).

Run it before every commit of /verif: `python3 tools/selfcheck.py` (about 1.5 minutes), or with
python3-vt to include the JSON-schema validation. Exit 0 = everything above holds.
"""
import sys, os, json, subprocess, time

ROOT = os.path.dirname(os.path.dirname(os.path.abspath(__file__)))
sys.path.insert(0, os.path.join(ROOT, 'lib'))
import evidencecheck  # noqa: E402
import verifcfg  # noqa: E402

try:
    import jsonschema
except Exception:  # system python: structural rules only
    jsonschema = None


def schema(name):
    p = os.path.join('/root/.vp', name)
    if jsonschema is None or not os.path.exists(p):
        return None
    return json.load(open(p))


def main():
    args = sys.argv[1:]
    tier, seed, norun, ids = 'quick', int(os.environ.get('VERIF_SEED', '1')), False, []
    while args:
        a = args.pop(0)
        if a == '--tier':
            tier = args.pop(0)
        elif a == '--seed':
            seed = int(args.pop(0))
        elif a == '--no-run':
            norun = True
        else:
            ids.append(a)
    bad = []
    man = json.load(open(os.path.join(ROOT, 'MANIFEST.json')))
    ms = schema('MANIFEST.schema.json')
    if ms is not None:
        try:
            jsonschema.validate(man, ms)
        except Exception as e:
            bad.append('MANIFEST.json: ' + str(e).split('\n')[0])
    es = schema('EVIDENCE.schema.json')
    props = [json.loads(l)['id'] for l in open(os.path.join(ROOT, 'properties.jsonl')) if l.strip()]
    claimed = [c['property_id'] for c in man['checks']]
    na = [n['property_id'] for n in man.get('not_applicable', [])]
    for p in claimed:
        if p not in verifcfg.PROPS:
            bad.append('%s is claimed but has no configuration in lib/verifcfg.py' % p)
        if p in na:
            bad.append('%s is both claimed and not_applicable' % p)
    for p in props:
        if p not in claimed and p not in na:
            bad.append('%s is neither claimed nor listed under not_applicable' % p)
    served = set()
    for e in man.get('engines', []):
        served.update(e.get('serves_properties', []))
    if served != set(claimed):
        bad.append('engines.serves_properties %s differs from the claimed checks %s' % (sorted(served), sorted(claimed)))
    evdir = os.path.join(ROOT, 'evidence')
    for f in sorted(os.listdir(evdir)):
        if f.endswith('.json') and f[:-5] not in claimed:
            bad.append('evidence/%s belongs to no claimed property (remove it)' % f)
    env = dict(os.environ, VERIF_SEED=str(seed), VERIF_TIER=tier)
    for c in man['checks']:
        p = c['property_id']
        if ids and p not in ids:
            continue
        evp = os.path.join(ROOT, c['evidence_file'])
        if not norun:
            if os.path.exists(evp):
                os.remove(evp)
            t0 = time.time()
            cmd = c['quick_cmd'] if tier == 'quick' else c['thorough_cmd']
            r = subprocess.run(cmd, shell=True, cwd=ROOT, env=env, stdout=subprocess.PIPE, stderr=subprocess.STDOUT)
            out = r.stdout.decode('utf-8', 'replace')
            last = [l for l in out.split('\n') if l.strip()][-1:] or ['']
            print('%s rc=%d %.0fs %s' % (p, r.returncode, time.time() - t0, last[0][:160]), flush=True)
            if r.returncode != 0:
                bad.append('%s: `%s` exited %d:\n%s' % (p, cmd, r.returncode, out[-1500:]))
            if any(l.startswith('VIOLATION') for l in out.split('\n')):
                bad.append('%s: VIOLATION line on the unchanged tree' % p)
        if not os.path.exists(evp):
            bad.append('%s: %s was not (re)written' % (p, c['evidence_file']))
            continue
        try:
            ev = json.load(open(evp))
        except Exception as e:
            bad.append('%s: %s is not JSON: %s' % (p, c['evidence_file'], e))
            continue
        if es is not None:
            try:
                jsonschema.validate(ev, es)
            except Exception as e:
                bad.append('%s: %s does not validate: %s' % (p, c['evidence_file'], str(e).split('\n')[0]))
        for pr in evidencecheck.committable(ev, p, c['level_claimed']['category']):
            bad.append('%s: %s: %s' % (p, c['evidence_file'], pr))
        if ev.get('tier') != tier and not norun:
            bad.append('%s: evidence says tier %r, ran %r' % (p, ev.get('tier'), tier))
    st = subprocess.run(['git', 'status', '--short', 'evidence'], cwd=ROOT, stdout=subprocess.PIPE).stdout.decode()
    if st.strip():
        print('note: evidence files differ from the committed ones (commit them with the change that caused it):\n' + st.rstrip())
    if jsonschema is None:
        print('note: jsonschema not importable with this python: structural rules only (use python3-vt for the schema)')
    if bad:
        print('SELFCHECK FAILED')
        for b in bad:
            print(' - ' + b)
        sys.exit(1)
    print('selfcheck ok: %d claimed checks, tier %s, seed %d' % (len(claimed), tier, seed))


if __name__ == '__main__':
    main()
