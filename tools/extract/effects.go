package main

// effects.go — a small interprocedural may-write analysis over SSA (group D: C14, C17, C18).
//
// For every function of the nutsdb packages the set of abstract heap locations it may write is computed
// (field stores `T.f`, element stores `T.f[]`, map updates `T.f{}`, package globals `global:x`), closed over
// static callees, closures and — for interface calls — every method of that name in the nutsdb packages.
// Writes into objects the function allocated itself (or obtained from a constructor New*/new*) are local
// and not reported; neither are the transaction's own fields (`Tx.*`), which no other goroutine sees.
// The result for every exported method of Tx and DB goes into NutsGen.F.effects; lock operations
// (`db.mu.Lock/RLock/Unlock/RUnlock`) reached from each method go into NutsGen.F.lockOps.
//
// The analysis is deliberately coarse (flow-insensitive, type-and-field based); it is an over-approximation
// of the writes that can happen, which is what `ReadPure` needs.

import (
	"fmt"
	"go/types"
	"sort"
	"strings"

	"golang.org/x/tools/go/ssa"
)

type effAnalysis struct {
	prog    *ssa.Program
	ours    map[*ssa.Package]bool
	direct  map[*ssa.Function]map[string]bool
	locks   map[*ssa.Function]map[string]bool
	callees map[*ssa.Function]map[*ssa.Function]bool
	byName  map[string][]*ssa.Function // method name -> methods in our packages
	// functions that sort one of their slice parameters in place (through a sort.Interface wrapper):
	// function -> (parameter index, reported name); the effect is charged to the call sites, where it is
	// known whether the slice is shared
	sortsParam map[*ssa.Function]sortedParam
}

type sortedParam struct {
	idx  int
	name string
}

// wrappedSlice: for sort.Sort(w) with w a struct value built in this function, the slice value stored into it
func wrappedSlice(mi *ssa.MakeInterface) ssa.Value {
	ld, ok := mi.X.(*ssa.UnOp)
	if !ok {
		return nil
	}
	al, ok := ld.X.(*ssa.Alloc)
	if !ok {
		return nil
	}
	for _, r := range *al.Referrers() {
		fa, ok := r.(*ssa.FieldAddr)
		if !ok {
			continue
		}
		for _, r2 := range *fa.Referrers() {
			if st, ok := r2.(*ssa.Store); ok && st.Addr == fa {
				if _, isSlice := st.Val.Type().Underlying().(*types.Slice); isSlice {
					return st.Val
				}
			}
		}
	}
	return nil
}

func typeName(t types.Type) string {
	for {
		switch u := t.(type) {
		case *types.Pointer:
			t = u.Elem()
			continue
		case *types.Named:
			return u.Obj().Name()
		case *types.Slice:
			return "[]" + typeName(u.Elem())
		case *types.Map:
			return "map"
		case *types.Array:
			return "[n]" + typeName(u.Elem())
		}
		return t.String()
	}
}

func isConstructor(fn *ssa.Function) bool {
	n := fn.Name()
	return strings.HasPrefix(n, "New") || strings.HasPrefix(n, "new") || strings.HasPrefix(n, "make")
}

var freshMemo = map[*ssa.Function]int{} // 0 unknown, 1 in progress, 2 fresh, 3 not fresh

// returnsFresh: every pointer-like result of fn is an object fn allocated itself (a constructor in effect)
func returnsFresh(fn *ssa.Function) bool {
	if fn == nil || fn.Blocks == nil {
		return false
	}
	switch freshMemo[fn] {
	case 1, 2:
		return true
	case 3:
		return false
	}
	freshMemo[fn] = 1
	ok := true
	for _, b := range fn.Blocks {
		for _, ins := range b.Instrs {
			if r, isRet := ins.(*ssa.Return); isRet {
				for _, res := range r.Results {
					switch res.Type().Underlying().(type) {
					case *types.Pointer, *types.Slice, *types.Map:
						if c, isC := res.(*ssa.Const); isC && c.IsNil() {
							continue
						}
						if !isLocalRoot(res, 0) {
							ok = false
						}
					}
				}
			}
		}
	}
	if ok {
		freshMemo[fn] = 2
	} else {
		freshMemo[fn] = 3
	}
	return ok
}

var localVisiting = map[ssa.Value]bool{}

// isLocalRoot: does the object that `v` points into belong to the function itself?
func isLocalRoot(v ssa.Value, depth int) bool {
	if depth > 60 {
		return false
	}
	if localVisiting[v] {
		return true // a cycle through phi/append: decided by the other edges
	}
	localVisiting[v] = true
	defer delete(localVisiting, v)
	switch x := v.(type) {
	case *ssa.Alloc, *ssa.MakeMap, *ssa.MakeSlice, *ssa.MakeChan, *ssa.MakeInterface, *ssa.MakeClosure:
		return true
	case *ssa.FieldAddr:
		return isLocalRoot(x.X, depth+1)
	case *ssa.IndexAddr:
		return isLocalRoot(x.X, depth+1)
	case *ssa.Slice:
		return isLocalRoot(x.X, depth+1)
	case *ssa.Phi:
		for _, e := range x.Edges {
			if !isLocalRoot(e, depth+1) {
				return false
			}
		}
		return true
	case *ssa.Call:
		if c := x.Call.StaticCallee(); c != nil && (isConstructor(c) || returnsFresh(c)) {
			return true
		}
		// append(local, …) stays local
		if b, ok := x.Call.Value.(*ssa.Builtin); ok && b.Name() == "append" && len(x.Call.Args) > 0 {
			return isLocalRoot(x.Call.Args[0], depth+1)
		}
		return false
	case *ssa.UnOp:
		// a load: the loaded pointer/slice/map is local only if it was loaded from a local variable that
		// holds a local object — approximated by "loaded from an Alloc that is never stored a non-local"
		// a load from a field of an object this function allocated: local if everything stored there is
		if fa, ok := x.X.(*ssa.FieldAddr); ok && isLocalRoot(fa.X, depth+1) {
			if fa.Parent() != nil {
				for _, b := range fa.Parent().Blocks {
					for _, ins := range b.Instrs {
						st, ok := ins.(*ssa.Store)
						if !ok {
							continue
						}
						if fb, ok := st.Addr.(*ssa.FieldAddr); ok && fb.Field == fa.Field && fb.X == fa.X {
							if !isLocalRoot(st.Val, depth+1) {
								return false
							}
						}
					}
				}
			}
			return true
		}
		if a, ok := x.X.(*ssa.Alloc); ok {
			for _, r := range *a.Referrers() {
				if st, ok := r.(*ssa.Store); ok && st.Addr == a {
					if !isLocalRoot(st.Val, depth+1) {
						return false
					}
				}
			}
			return true
		}
		return false
	case *ssa.Extract:
		if c, ok := x.Tuple.(*ssa.Call); ok {
			if f := c.Call.StaticCallee(); f != nil && (isConstructor(f) || returnsFresh(f)) {
				return true
			}
		}
		return false
	case *ssa.Const:
		return true
	}
	return false
}

func locOfAddr(v ssa.Value) string {
	switch x := v.(type) {
	case *ssa.FieldAddr:
		st := x.X.Type().Underlying().(*types.Pointer).Elem()
		name := typeName(st)
		if s, ok := st.Underlying().(*types.Struct); ok {
			return name + "." + s.Field(x.Field).Name()
		}
		return name + ".?"
	case *ssa.IndexAddr:
		return locOfVal(x.X) + "[]"
	case *ssa.Global:
		return "global:" + x.Name()
	case *ssa.Parameter:
		return typeName(x.Type()) + ".*"
	case *ssa.UnOp:
		return locOfVal(x)
	}
	return typeName(v.Type()) + ".*"
}

// locOfVal: where does this slice / map / pointer value come from?
func locOfVal(v ssa.Value) string {
	switch x := v.(type) {
	case *ssa.UnOp:
		if x.Op.String() == "*" {
			return locOfAddr(x.X)
		}
	case *ssa.Slice:
		return locOfVal(x.X)
	case *ssa.Field:
		st := x.X.Type()
		if s, ok := st.Underlying().(*types.Struct); ok {
			return typeName(st) + "." + s.Field(x.Field).Name()
		}
	case *ssa.Global:
		return "global:" + x.Name()
	case *ssa.Parameter:
		return "param:" + typeName(x.Type())
	case *ssa.Phi:
		if len(x.Edges) > 0 {
			return locOfVal(x.Edges[0])
		}
	}
	return typeName(v.Type())
}

func (a *effAnalysis) analyse(fn *ssa.Function) {
	if _, ok := a.direct[fn]; ok {
		return
	}
	w := map[string]bool{}
	l := map[string]bool{}
	cs := map[*ssa.Function]bool{}
	a.direct[fn], a.locks[fn], a.callees[fn] = w, l, cs
	for _, an := range fn.AnonFuncs {
		cs[an] = true
	}
	for _, b := range fn.Blocks {
		for _, ins := range b.Instrs {
			switch x := ins.(type) {
			case *ssa.Store:
				if !isLocalRoot(x.Addr, 0) {
					w[locOfAddr(x.Addr)] = true
				}
			case *ssa.MapUpdate:
				if !isLocalRoot(x.Map, 0) {
					w[locOfVal(x.Map)+"{}"] = true
				}
			}
			call, ok := ins.(ssa.CallInstruction)
			if !ok {
				continue
			}
			com := call.Common()
			if bi, ok := com.Value.(*ssa.Builtin); ok {
				switch bi.Name() {
				case "delete":
					if !isLocalRoot(com.Args[0], 0) {
						w[locOfVal(com.Args[0])+"{}"] = true
					}
				case "copy":
					if !isLocalRoot(com.Args[0], 0) {
						w[locOfVal(com.Args[0])+"[]"] = true
					}
				}
				continue
			}
			if com.IsInvoke() {
				// interface call: the method of every type of our packages that implements the interface
				iface, _ := com.Value.Type().Underlying().(*types.Interface)
				for _, m := range a.byName[com.Method.Name()] {
					if iface == nil || m.Signature.Recv() == nil || types.Implements(m.Signature.Recv().Type(), iface) {
						cs[m] = true
					}
				}
				continue
			}
			callee := com.StaticCallee()
			if callee == nil {
				continue
			}
			if callee.Pkg != nil && a.ours[callee.Pkg] {
				cs[callee] = true
				// a callee that sorts one of its parameters in place: harmless on a slice this function made
				a.analyse(callee)
				if sp, ok := a.sortsParam[callee]; ok && sp.idx < len(com.Args) {
					if !isLocalRoot(com.Args[sp.idx], 0) {
						w[sp.name] = true
					}
				}
				continue
			}
			// calls leaving our packages: the mutex, sort, os
			full := callee.String()
			switch {
			case strings.HasPrefix(full, "(*sync.RWMutex).") || strings.HasPrefix(full, "(*sync.Mutex)."):
				// which mutex: the location of the receiver
				recv := "?"
				if len(com.Args) > 0 {
					recv = locOfAddr(com.Args[0])
				}
				if !strings.HasPrefix(recv, "global:verif") {
					l[recv+"."+callee.Name()] = true
				}
			case callee.Pkg != nil && callee.Pkg.Pkg.Path() == "sort":
				// sorting in place: a plain local slice is harmless; a wrapper value (sort.Sort(w{shared slice})) is
				// reported by its dynamic type
				if len(com.Args) > 0 {
					arg := com.Args[0]
					if mi, ok := arg.(*ssa.MakeInterface); ok {
						name := "sort:" + typeName(mi.X.Type())
						if sl := wrappedSlice(mi); sl != nil {
							if prm, ok := sl.(*ssa.Parameter); ok {
								for pi, q := range fn.Params {
									if q == prm {
										a.sortsParam[fn] = sortedParam{pi, name}
									}
								}
							} else if !isLocalRoot(sl, 0) {
								w[name] = true
							}
						} else {
							w[name] = true
						}
					} else if !isLocalRoot(arg, 0) {
						w["sort:"+locOfVal(arg)] = true
					}
				}
			}
		}
	}
}

func (a *effAnalysis) closure(fn *ssa.Function) (map[string]bool, map[string]bool) {
	seen := map[*ssa.Function]bool{}
	w, l := map[string]bool{}, map[string]bool{}
	var visit func(f *ssa.Function)
	visit = func(f *ssa.Function) {
		if seen[f] || f.Blocks == nil {
			return
		}
		seen[f] = true
		a.analyse(f)
		for k := range a.direct[f] {
			w[k] = true
		}
		for k := range a.locks[f] {
			l[k] = true
		}
		for c := range a.callees[f] {
			visit(c)
		}
	}
	visit(fn)
	return w, l
}

func effectFacts(prog *ssa.Program, sp *ssa.Package) string {
	a := &effAnalysis{prog: prog, ours: map[*ssa.Package]bool{}, direct: map[*ssa.Function]map[string]bool{},
		locks: map[*ssa.Function]map[string]bool{}, callees: map[*ssa.Function]map[*ssa.Function]bool{}, byName: map[string][]*ssa.Function{}, sortsParam: map[*ssa.Function]sortedParam{}}
	for _, p := range prog.AllPackages() {
		if strings.HasPrefix(p.Pkg.Path(), root) {
			a.ours[p] = true
		}
	}
	// methods by name (for interface calls)
	for p := range a.ours {
		for _, m := range p.Members {
			if t, ok := m.(*ssa.Type); ok {
				for _, typ := range []types.Type{t.Type(), types.NewPointer(t.Type())} {
					ms := prog.MethodSets.MethodSet(typ)
					for i := 0; i < ms.Len(); i++ {
						if f := prog.MethodValue(ms.At(i)); f != nil {
							a.byName[f.Name()] = append(a.byName[f.Name()], f)
						}
					}
				}
			}
		}
	}
	var sb strings.Builder
	sb.WriteString("\n/-- per exported method of Tx and DB (receiver, name): shared heap locations it may write (type.field,\n[] = element, {} = map entry, sort:x = sorted in place) and package-level variables it may write, closed over\ncallees; objects allocated by the function itself and the transaction's own fields are left out -/\ndef effects : List (String × String × List String × List String) := [\n")
	var rows, lockRows []string
	for _, tn := range []string{"DB", "Tx"} {
		t := sp.Type(tn)
		ms := prog.MethodSets.MethodSet(types.NewPointer(t.Type()))
		for i := 0; i < ms.Len(); i++ {
			sel := ms.At(i)
			if !sel.Obj().Exported() || strings.HasPrefix(sel.Obj().Name(), "Verif") {
				continue
			}
			fn := prog.MethodValue(sel)
			w, l := a.closure(fn)
			var ws, gs, ls, gls []string
			for k := range w {
				// the transaction's own fields; the harness hooks; byte buffers handed down by the caller
				if strings.HasPrefix(k, "Tx.") || strings.HasPrefix(k, "global:verif") || k == "param:[]byte[]" {
					continue
				}
				if strings.HasPrefix(k, "global:") {
					gs = append(gs, leanStr(strings.TrimPrefix(k, "global:")))
				} else {
					ws = append(ws, leanStr(k))
				}
			}
			for k := range l {
				if strings.HasPrefix(k, "global:") {
					gls = append(gls, leanStr(strings.TrimPrefix(k, "global:")))
				} else {
					ls = append(ls, leanStr(k))
				}
			}
			sort.Strings(ws)
			sort.Strings(gs)
			sort.Strings(ls)
			sort.Strings(gls)
			rows = append(rows, fmt.Sprintf("  (%s, %s, [%s], [%s])", leanStr(tn), leanStr(sel.Obj().Name()), strings.Join(ws, ", "), strings.Join(gs, ", ")))
			lockRows = append(lockRows, fmt.Sprintf("  (%s, %s, [%s], [%s])", leanStr(tn), leanStr(sel.Obj().Name()), strings.Join(ls, ", "), strings.Join(gls, ", ")))
		}
	}
	sb.WriteString(strings.Join(rows, ",\n") + "]\n\n")
	sb.WriteString("/-- per exported method: mutex operations reachable from it (on fields; on package-level mutexes) -/\ndef lockOps : List (String × String × List String × List String) := [\n" + strings.Join(lockRows, ",\n") + "]\n\n")
	// the two lock primitives of a transaction, as (function, mutex operations in it)
	var prim []string
	for _, n := range []string{"lock", "unlock"} {
		for _, f := range a.byName[n] {
			if f.Signature.Recv() != nil && typeName(f.Signature.Recv().Type()) == "Tx" {
				a.analyse(f)
				var ls []string
				for k := range a.locks[f] {
					ls = append(ls, leanStr(k))
				}
				sort.Strings(ls)
				prim = append(prim, fmt.Sprintf("(%s, [%s])", leanStr("Tx."+n), strings.Join(ls, ", ")))
			}
		}
	}
	sort.Strings(prim)
	sb.WriteString("/-- the mutex operations inside Tx.lock and Tx.unlock -/\ndef lockPrims : List (String × List String) := [" + strings.Join(prim, ", ") + "]\n")
	// what DB.Merge itself (its own body, not its callees) writes and which mutex operations it performs
	if t := sp.Type("DB"); t != nil {
		ms := prog.MethodSets.MethodSet(types.NewPointer(t.Type()))
		for i := 0; i < ms.Len(); i++ {
			if ms.At(i).Obj().Name() == "Merge" {
				fn := prog.MethodValue(ms.At(i))
				a.analyse(fn)
				var ws, ls []string
				for k := range a.direct[fn] {
					ws = append(ws, leanStr(k))
				}
				for k := range a.locks[fn] {
					ls = append(ls, leanStr(k))
				}
				sort.Strings(ws)
				sort.Strings(ls)
				fmt.Fprintf(&sb, "/-- DB.Merge's own body: shared locations written, mutex operations performed -/\ndef mergeBody : List String × List String := ([%s], [%s])\n", strings.Join(ws, ", "), strings.Join(ls, ", "))
				// the functions of the nutsdb packages that Merge's body calls directly (what it does to shared state
				// beyond its own stores goes through these)
				var cl []string
				seenC := map[string]bool{}
				for cf := range a.callees[fn] {
					n := cf.Name()
					if cf.Signature.Recv() != nil {
						n = typeName(cf.Signature.Recv().Type()) + "." + n
					}
					if !seenC[n] && !strings.HasPrefix(n, "verif") {
						seenC[n] = true
						cl = append(cl, leanStr(n))
					}
				}
				sort.Strings(cl)
				fmt.Fprintf(&sb, "/-- functions of the nutsdb packages called directly from DB.Merge's body -/\ndef mergeCalls : List String := [%s]\n", strings.Join(cl, ", "))
			}
			if ms.At(i).Obj().Name() == "Backup" {
				// Backup's shape: what its own body does (calls, *DB fields touched) outside the function literal it
				// hands to db.View, and what that literal calls. "Everything under the read lock" = the body is
				// nothing but the call of View.
				fn := prog.MethodValue(ms.At(i))
				calls := func(f *ssa.Function) (cs, fs []string) {
					seen := map[string]bool{}
					for _, b := range f.Blocks {
						for _, in := range b.Instrs {
							switch x := in.(type) {
							case *ssa.FieldAddr:
								if typeName(x.X.Type()) == "DB" {
									st := x.X.Type().Underlying().(*types.Pointer).Elem().Underlying().(*types.Struct)
									n := "DB." + st.Field(x.Field).Name()
									if !seen["f:"+n] {
										seen["f:"+n] = true
										fs = append(fs, leanStr(n))
									}
								}
							case ssa.CallInstruction:
								n := "dynamic"
								if cf := x.Common().StaticCallee(); cf != nil {
									n = cf.Name()
									if cf.Signature.Recv() != nil {
										n = typeName(cf.Signature.Recv().Type()) + "." + n
									} else if cf.Pkg != nil {
										n = cf.Pkg.Pkg.Name() + "." + n
									}
								} else if x.Common().IsInvoke() {
									n = "invoke." + x.Common().Method.Name()
								}
								if strings.HasPrefix(n, "nutsdb.verif") || strings.HasPrefix(n, "verif") {
									continue
								}
								if !seen["c:"+n] {
									seen["c:"+n] = true
									cs = append(cs, leanStr(n))
								}
							}
						}
					}
					sort.Strings(cs)
					sort.Strings(fs)
					return
				}
				oc, of := calls(fn)
				var ic []string
				for _, af := range fn.AnonFuncs {
					c, _ := calls(af)
					ic = append(ic, c...)
				}
				sort.Strings(ic)
				fmt.Fprintf(&sb, "/-- DB.Backup: calls and *DB fields of its own body outside the function literals, and the calls made by the literals (the one handed to db.View) -/\ndef backupShape : List String × List String × List String := ([%s], [%s], [%s])\n", strings.Join(oc, ", "), strings.Join(of, ", "), strings.Join(ic, ", "))
			}
			if ms.At(i).Obj().Name() == "reWriteData" {
				// the rewrite transaction: which accesses to the database (fields of *DB, calls of nutsdb
				// functions) are NOT dominated by the call of db.Begin, i.e. can happen without the write lock
				fn := prog.MethodValue(ms.At(i))
				fmt.Fprintf(&sb, "/-- reWriteData: accesses to the database that are not dominated by its `db.Begin(true)` (i.e. made without the write lock); `[\"no-Begin\"]` when it does not call Begin at all -/\ndef rewriteUnlocked : List String := [%s]\n", strings.Join(unlockedBeforeBegin(fn), ", "))
			}
		}
	}
	return sb.String()
}

// unlockedBeforeBegin lists the *DB field accesses and nutsdb calls of fn that the call of (*DB).Begin does
// not dominate.
func unlockedBeforeBegin(fn *ssa.Function) []string {
	var begin ssa.Instruction
	for _, b := range fn.Blocks {
		for _, in := range b.Instrs {
			if c, ok := in.(ssa.CallInstruction); ok {
				if cf := c.Common().StaticCallee(); cf != nil && cf.Name() == "Begin" && cf.Signature.Recv() != nil && typeName(cf.Signature.Recv().Type()) == "DB" {
					if begin == nil {
						begin = in
					}
				}
			}
		}
	}
	if begin == nil {
		return []string{leanStr("no-Begin")}
	}
	dominated := func(in ssa.Instruction) bool {
		if in.Block() == begin.Block() {
			for _, x := range in.Block().Instrs {
				if x == begin {
					return true
				}
				if x == in {
					return false
				}
			}
		}
		return begin.Block().Dominates(in.Block())
	}
	seen := map[string]bool{}
	var out []string
	add := func(n string) {
		if !seen[n] {
			seen[n] = true
			out = append(out, leanStr(n))
		}
	}
	for _, b := range fn.Blocks {
		for _, in := range b.Instrs {
			if in == begin || dominated(in) {
				continue
			}
			switch x := in.(type) {
			case *ssa.FieldAddr:
				if typeName(x.X.Type()) == "DB" {
					st := x.X.Type().Underlying().(*types.Pointer).Elem().Underlying().(*types.Struct)
					add("DB." + st.Field(x.Field).Name())
				}
			case ssa.CallInstruction:
				if cf := x.Common().StaticCallee(); cf != nil && cf.Pkg != nil && strings.Contains(cf.Pkg.Pkg.Path(), "nutsdb") && !strings.HasPrefix(cf.Name(), "verif") {
					n := cf.Name()
					if cf.Signature.Recv() != nil {
						n = typeName(cf.Signature.Recv().Type()) + "." + n
					}
					add(n)
				}
			}
		}
	}
	sort.Strings(out)
	return out
}
