package main

import (
	"golang.org/x/tools/go/ssa"
)

func effectFacts(prog *ssa.Program, sp *ssa.Package) string { return "" }
