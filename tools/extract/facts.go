package main

// Fact extraction: constants, codec layouts, API surface, closed-checks, commit structure.
// Output: Lean *data* (lists of naturals/strings/booleans) in NutsGen/Facts.lean; the
// expectations about them live in hand-written Lean and are closed by `decide`.

import (
	"bytes"
	"fmt"
	"go/ast"
	"go/constant"
	"go/printer"
	"go/token"
	"go/types"
	"sort"
	"strings"

	"golang.org/x/tools/go/packages"
	"golang.org/x/tools/go/ssa"
)

func leanStr(s string) string {
	var sb strings.Builder
	sb.WriteByte('"')
	for _, r := range s {
		switch r {
		case '"':
			sb.WriteString("\\\"")
		case '\\':
			sb.WriteString("\\\\")
		case '\n':
			sb.WriteString("\\n")
		case '\t':
			sb.WriteString("\\t")
		default:
			sb.WriteRune(r)
		}
	}
	sb.WriteByte('"')
	return sb.String()
}

func constVal(p *packages.Package, name string) (string, bool) {
	o := p.Types.Scope().Lookup(name)
	c, ok := o.(*types.Const)
	if !ok {
		return "", false
	}
	return c.Val().ExactString(), true
}

func exprStr(fset *token.FileSet, e ast.Node) string {
	var b bytes.Buffer
	printer.Fprint(&b, fset, e)
	return strings.Join(strings.Fields(b.String()), " ")
}

type layoutField struct {
	field     string
	lo, hi, w int
}

// sliceBounds extracts constant bounds of buf[a:b].
func sliceBounds(info *types.Info, e ast.Expr) (lo, hi int, ok bool) {
	se, isS := e.(*ast.SliceExpr)
	if !isS || se.Low == nil || se.High == nil {
		return 0, 0, false
	}
	l, ok1 := info.Types[se.Low]
	h, ok2 := info.Types[se.High]
	if !ok1 || !ok2 || l.Value == nil || h.Value == nil {
		return 0, 0, false
	}
	li, _ := constant.Int64Val(l.Value)
	hi64, _ := constant.Int64Val(h.Value)
	return int(li), int(hi64), true
}

func lastSel(e ast.Expr) string {
	switch x := e.(type) {
	case *ast.SelectorExpr:
		return x.Sel.Name
	case *ast.Ident:
		return x.Name
	case *ast.CallExpr: // conversions
		if len(x.Args) == 1 {
			return lastSel(x.Args[0])
		}
	}
	return "?"
}

// encoderLayout: binary.LittleEndian.PutUintN(buf[a:b], x.f) statements inside the functions.
func encoderLayout(p *packages.Package, fds ...*ast.FuncDecl) []layoutField {
	var out []layoutField
	for _, fd := range fds {
		if fd == nil {
			continue
		}
		ast.Inspect(fd, func(n ast.Node) bool {
			ce, ok := n.(*ast.CallExpr)
			if !ok {
				return true
			}
			se, ok := ce.Fun.(*ast.SelectorExpr)
			if !ok || !strings.HasPrefix(se.Sel.Name, "PutUint") || len(ce.Args) != 2 {
				return true
			}
			var w int
			fmt.Sscanf(se.Sel.Name, "PutUint%d", &w)
			lo, hi, ok := sliceBounds(p.TypesInfo, ce.Args[0])
			if !ok {
				return true
			}
			out = append(out, layoutField{lastSel(ce.Args[1]), lo, hi, w / 8})
			return true
		})
	}
	return out
}

// decoderLayout: binary.LittleEndian.UintN(buf[a:b]) expressions with the field they initialise.
func decoderLayout(p *packages.Package, fds ...*ast.FuncDecl) []layoutField {
	var out []layoutField
	for _, fd := range fds {
		if fd == nil {
			continue
		}
		var visit func(n ast.Node, field string)
		handleCall := func(ce *ast.CallExpr, field string) bool {
			se, ok := ce.Fun.(*ast.SelectorExpr)
			if !ok || !strings.HasPrefix(se.Sel.Name, "Uint") || len(ce.Args) != 1 {
				return false
			}
			var w int
			if _, err := fmt.Sscanf(se.Sel.Name, "Uint%d", &w); err != nil {
				return false
			}
			lo, hi, ok := sliceBounds(p.TypesInfo, ce.Args[0])
			if !ok {
				return false
			}
			out = append(out, layoutField{field, lo, hi, w / 8})
			return true
		}
		visit = func(n ast.Node, field string) {
			ast.Inspect(n, func(m ast.Node) bool {
				switch x := m.(type) {
				case *ast.KeyValueExpr:
					if id, ok := x.Key.(*ast.Ident); ok {
						visit(x.Value, id.Name)
						return false
					}
				case *ast.AssignStmt:
					if len(x.Lhs) == 1 && len(x.Rhs) == 1 {
						visit(x.Rhs[0], lastSel(x.Lhs[0]))
						return false
					}
				case *ast.CallExpr:
					if handleCall(x, field) {
						return false
					}
				}
				return true
			})
		}
		visit(fd.Body, "?")
	}
	return out
}

func leanLayout(name string, fs []layoutField) string {
	var items []string
	for _, f := range fs {
		items = append(items, fmt.Sprintf("(%s, %d, %d, %d)", leanStr(f.field), f.lo, f.hi, f.w))
	}
	return fmt.Sprintf("def %s : List (String × Nat × Nat × Nat) := [%s]\n", name, strings.Join(items, ", "))
}

// closedSafe: does the method reach checkTxIsClosed (or only compare tx.db with nil)
// before it dereferences tx.db?
func closedSafe(fn *ssa.Function, memo map[*ssa.Function]int, depth int) bool {
	if fn == nil || len(fn.Blocks) == 0 || len(fn.Params) == 0 {
		return false
	}
	if v, ok := memo[fn]; ok {
		return v == 1
	}
	memo[fn] = 0
	recv := fn.Params[0]
	// walk the dominator-ordered prefix: block 0 instructions in order
	res := false
	done := false
	// loads of tx.db whose only use is a comparison with nil are harmless
	harmlessLoad := func(v *ssa.UnOp) bool {
		refs := v.Referrers()
		if refs == nil {
			return false
		}
		for _, r := range *refs {
			b, ok := r.(*ssa.BinOp)
			if !ok || (b.Op != token.EQL && b.Op != token.NEQ) {
				return false
			}
		}
		return true
	}
	var walk func(b *ssa.BasicBlock, seen map[*ssa.BasicBlock]bool) bool // true = safe on all paths from b
	walk = func(b *ssa.BasicBlock, seen map[*ssa.BasicBlock]bool) bool {
		if seen[b] {
			return true
		}
		seen[b] = true
		for _, ins := range b.Instrs {
			switch x := ins.(type) {
			case *ssa.Call:
				if callee := x.Call.StaticCallee(); callee != nil && len(x.Call.Args) > 0 && x.Call.Args[0] == recv {
					if callee.Name() == "checkTxIsClosed" {
						return true
					}
					if depth < 6 && closedSafe(callee, memo, depth+1) {
						return true
					}
					return false
				}
			case *ssa.FieldAddr:
				if x.X == recv && fn.Signature.Recv() != nil {
					st := recv.Type().(*types.Pointer).Elem().Underlying().(*types.Struct)
					if st.Field(x.Field).Name() == "db" {
						refs := x.Referrers()
						if refs != nil {
							for _, r := range *refs {
								if u, ok := r.(*ssa.UnOp); ok && u.Op == token.MUL {
									if !harmlessLoad(u) {
										return false
									}
								} else if _, isStore := r.(*ssa.Store); !isStore {
									return false
								}
							}
						}
					}
				}
			case *ssa.Return:
				return true
			}
		}
		for _, s := range b.Succs {
			if !walk(s, seen) {
				return false
			}
		}
		return true
	}
	_ = done
	res = walk(fn.Blocks[0], map[*ssa.BasicBlock]bool{})
	if res {
		memo[fn] = 1
	}
	return res
}

func extractFacts(pkgs []*packages.Package, prog *ssa.Program, byPath map[string]*ssa.Package) (string, map[string]interface{}) {
	p := findPkg(pkgs, root)
	pz := findPkg(pkgs, root+"/ds/zset")
	meta := map[string]interface{}{}
	var sb strings.Builder
	sb.WriteString("/- GENERATED by /verif/tools/extract from the repository's working tree. DO NOT EDIT. -/\nnamespace NutsGen.F\n\n")
	// ---- constants
	consts := []string{"DataEntryHeaderSize", "BucketMetaHeaderSize", "BPTreeRootIdxHeaderSize", "order",
		"DataDeleteFlag", "DataSetFlag", "DataLPushFlag", "DataRPushFlag", "DataLRemFlag", "DataLPopFlag", "DataRPopFlag",
		"DataLSetFlag", "DataLTrimFlag", "DataZAddFlag", "DataZRemFlag", "DataZRemRangeByRankFlag", "DataZPopMaxFlag", "DataZPopMinFlag",
		"UnCommitted", "Committed", "Persistent", "ScanNoLimit",
		"DataStructureSet", "DataStructureSortedSet", "DataStructureBPTree", "DataStructureList",
		"HintKeyValAndRAMIdxMode", "HintKeyAndRAMIdxMode", "HintBPTSparseIdxMode", "FileIO", "MMap", "DefaultInvalidAddress"}
	sb.WriteString("/-- integer constants of package nutsdb -/\ndef consts : List (String × Int) := [\n")
	var cs []string
	for _, c := range consts {
		if v, ok := constVal(p, c); ok {
			cs = append(cs, fmt.Sprintf("  (%s, %s)", leanStr(c), v))
		}
	}
	if pz != nil {
		if v, ok := constVal(pz, "SkipListMaxLevel"); ok {
			cs = append(cs, fmt.Sprintf("  (%s, %s)", leanStr("SkipListMaxLevel"), v))
		}
	}
	sb.WriteString(strings.Join(cs, ",\n") + "]\n\n")
	sconsts := []string{"SeparatorForListKey", "SeparatorForZSetKey", "DataSuffix", "BPTIndexSuffix", "BPTRootIndexSuffix", "BPTTxIDIndexSuffix", "BPTRootTxIDIndexSuffix", "BucketMetaSuffix", "bptDir"}
	sb.WriteString("/-- string constants of package nutsdb -/\ndef sconsts : List (String × String) := [\n")
	cs = nil
	for _, c := range sconsts {
		if o, ok := p.Types.Scope().Lookup(c).(*types.Const); ok {
			cs = append(cs, fmt.Sprintf("  (%s, %s)", leanStr(c), leanStr(constant.StringVal(o.Val()))))
		}
	}
	sb.WriteString(strings.Join(cs, ",\n") + "]\n\n")
	// ---- layouts
	sb.WriteString("/-! codec layouts: (field, lo, hi, width in bytes) -/\n")
	sb.WriteString(leanLayout("entryEnc", encoderLayout(p, funcDecl(p, "Entry", "setEntryHeaderBuf"), funcDecl(p, "Entry", "Encode"))))
	sb.WriteString(leanLayout("entryDec", decoderLayout(p, funcDecl(p, "", "readMetaData"), funcDecl(p, "DataFile", "ReadAt"))))
	sb.WriteString(leanLayout("metaEnc", encoderLayout(p, funcDecl(p, "BucketMeta", "Encode"))))
	sb.WriteString(leanLayout("metaDec", decoderLayout(p, funcDecl(p, "", "ReadBucketMeta"))))
	sb.WriteString(leanLayout("rootEnc", encoderLayout(p, funcDecl(p, "BPTreeRootIdx", "Encode"))))
	sb.WriteString(leanLayout("rootDec", decoderLayout(p, funcDecl(p, "", "ReadBPTreeRootIdxAt"))))
	// crc coverage: the argument expressions of crc32.ChecksumIEEE / crc32.Update in the three GetCrc/Encode functions
	crcArgs := func(fd *ast.FuncDecl) []string {
		var out []string
		if fd == nil {
			return out
		}
		ast.Inspect(fd, func(n ast.Node) bool {
			ce, ok := n.(*ast.CallExpr)
			if !ok {
				return true
			}
			se, ok := ce.Fun.(*ast.SelectorExpr)
			if !ok {
				return true
			}
			if x, ok := se.X.(*ast.Ident); ok && x.Name == "crc32" {
				if se.Sel.Name == "ChecksumIEEE" && len(ce.Args) == 1 {
					out = append(out, exprStr(p.Fset, ce.Args[0]))
				}
				if se.Sel.Name == "Update" && len(ce.Args) == 3 {
					out = append(out, exprStr(p.Fset, ce.Args[2]))
				}
			}
			return true
		})
		return out
	}
	writeStrList := func(name string, xs []string) {
		var q []string
		for _, x := range xs {
			q = append(q, leanStr(x))
		}
		fmt.Fprintf(&sb, "def %s : List String := [%s]\n", name, strings.Join(q, ", "))
	}
	writeStrList("entryCrcEnc", crcArgs(funcDecl(p, "Entry", "Encode")))
	writeStrList("entryCrcDec", crcArgs(funcDecl(p, "Entry", "GetCrc")))
	writeStrList("metaCrcEnc", crcArgs(funcDecl(p, "BucketMeta", "Encode")))
	writeStrList("metaCrcDec", crcArgs(funcDecl(p, "BucketMeta", "GetCrc")))
	writeStrList("rootCrcEnc", crcArgs(funcDecl(p, "BPTreeRootIdx", "Encode")))
	writeStrList("rootCrcDec", crcArgs(funcDecl(p, "BPTreeRootIdx", "GetCrc")))
	sb.WriteString("\n")
	// ---- API surface + closed checks
	sp := byPath[root]
	memo := map[*ssa.Function]int{}
	var api, closed []string
	for _, tn := range []string{"DB", "Tx"} {
		t := sp.Type(tn)
		ms := prog.MethodSets.MethodSet(types.NewPointer(t.Type()))
		var names []string
		for i := 0; i < ms.Len(); i++ {
			names = append(names, ms.At(i).Obj().Name())
		}
		sort.Strings(names)
		for i := 0; i < ms.Len(); i++ {
			sel := ms.At(i)
			if !sel.Obj().Exported() || strings.HasPrefix(sel.Obj().Name(), "Verif") {
				continue
			}
			fn := prog.MethodValue(sel)
			sig := types.TypeString(sel.Obj().Type(), func(p *types.Package) string { return p.Name() })
			api = append(api, fmt.Sprintf("  (%s, %s, %s)", leanStr(tn), leanStr(sel.Obj().Name()), leanStr(sig)))
			if tn == "Tx" {
				closed = append(closed, fmt.Sprintf("  (%s, %v)", leanStr(sel.Obj().Name()), closedSafe(fn, memo, 0)))
			}
		}
	}
	sb.WriteString("/-- exported methods of DB and Tx: (receiver, name, signature) -/\ndef api : List (String × String × String) := [\n" + strings.Join(api, ",\n") + "]\n\n")
	sb.WriteString("/-- per exported Tx method: is a finished transaction detected before `tx.db` is dereferenced? -/\ndef closedChecks : List (String × Bool) := [\n" + strings.Join(closed, ",\n") + "]\n\n")
	meta["api"] = len(api)
	// ---- commit structure
	sb.WriteString(commitFacts(p))
	sb.WriteString(spanFacts(pz))
	sb.WriteString(bptFacts(p))
	sb.WriteString(readPathFacts(p))
	sb.WriteString(applierFacts(p))
	sb.WriteString(txApiFacts(p))
	sb.WriteString(collectStmts(p, map[string]map[string]bool{"db.go": {"Merge": true, "getPendingMergeEntries": true, "reWriteData": true,
		"isFilterEntry": true, "getRecordFromKey": true, "getMaxFileIDAndFileIDs": true}},
		"mergeStmts", "db.go: Merge and its helpers: (file:function, kind, source text), in source order"))
	sb.WriteString(collectStmts(findPkg(pkgs, root+"/ds/list"), map[string]map[string]bool{"list.go": nil},
		"listStmts", "ds/list/list.go: every function: (file:function, kind, source text), in source order"))
	sb.WriteString(collectStmts(findPkg(pkgs, root+"/ds/set"), map[string]map[string]bool{"set.go": nil},
		"setStmts", "ds/set/set.go: every function: (file:function, kind, source text), in source order"))
	// ---- mode check decision
	sb.WriteString(modeFacts(p))
	sb.WriteString(lockFacts(prog, sp))
	sb.WriteString("\nend NutsGen.F\n")
	return sb.String(), meta
}

// commitFacts: structural facts about Tx.Commit read off the AST of the write loop.
func commitFacts(p *packages.Package) string {
	fd := funcDecl(p, "Tx", "Commit")
	var sb strings.Builder
	sb.WriteString("/-! structure of `Tx.Commit`'s write loop: each item is (kind, guard, text) in source order. -/\n")
	var items []string
	if fd != nil {
		var loop *ast.ForStmt
		ast.Inspect(fd, func(n ast.Node) bool {
			if f, ok := n.(*ast.ForStmt); ok && loop == nil {
				loop = f
				return false
			}
			return true
		})
		if loop != nil {
			var walk func(stmts []ast.Stmt, guard string)
			add := func(kind, guard, text string) {
				items = append(items, fmt.Sprintf("  (%s, %s, %s)", leanStr(kind), leanStr(guard), leanStr(text)))
			}
			scanExpr := func(n ast.Node, guard string) {
				ast.Inspect(n, func(m ast.Node) bool {
					if ce, ok := m.(*ast.CallExpr); ok {
						s := exprStr(p.Fset, ce.Fun)
						switch {
						case strings.HasSuffix(s, ".WriteAt"):
							add("write", guard, exprStr(p.Fset, ce))
						case strings.HasSuffix(s, ".Sync"):
							add("sync", guard, exprStr(p.Fset, ce))
						case strings.HasSuffix(s, "rotateActiveFile"):
							add("rotate", guard, exprStr(p.Fset, ce))
						case strings.HasSuffix(s, "buildBPTreeIdx"):
							add("indexKV", guard, exprStr(p.Fset, ce))
						case strings.HasSuffix(s, "buildTxIDRootIdx"), strings.HasSuffix(s, "buildBucketMetaIdx"):
							add("sparseCommit", guard, exprStr(p.Fset, ce.Fun))
						}
					}
					return true
				})
			}
			walk = func(stmts []ast.Stmt, guard string) {
				for _, st := range stmts {
					switch x := st.(type) {
					case *ast.IfStmt:
						cond := exprStr(p.Fset, x.Cond)
						if x.Init != nil {
							scanExpr(x.Init, guard)
						}
						g := cond
						if guard != "" {
							g = guard + " && " + cond
						}
						// a returning error branch
						walk(x.Body.List, g)
						if x.Else != nil {
							ng := "!(" + cond + ")"
							if guard != "" {
								ng = guard + " && " + ng
							}
							if eb, ok := x.Else.(*ast.BlockStmt); ok {
								walk(eb.List, ng)
							} else if ei, ok := x.Else.(*ast.IfStmt); ok {
								walk([]ast.Stmt{ei}, ng)
							}
						}
					case *ast.AssignStmt:
						lhs := exprStr(p.Fset, x.Lhs[0])
						rhs := exprStr(p.Fset, x.Rhs[0])
						switch {
						case strings.HasSuffix(lhs, ".status"):
							add("status", guard, lhs+" = "+rhs)
						case strings.Contains(lhs, "committedTxIds"):
							add("committedIds", guard, lhs)
						case strings.HasSuffix(lhs, ".ActualSize") || strings.HasSuffix(lhs, ".writeOff"):
							add("advance", guard, lhs+" "+x.Tok.String()+" "+rhs)
						default:
							scanExpr(x, guard)
						}
					case *ast.ReturnStmt:
						add("return", guard, exprStr(p.Fset, x))
					default:
						scanExpr(st, guard)
					}
				}
			}
			walk(loop.Body.List, "")
		}
	}
	sb.WriteString("def commitLoop : List (String × String × String) := [\n" + strings.Join(items, ",\n") + "]\n\n")
	return sb.String()
}

// spanFacts: every statement and loop condition of ds/zset that reads or writes a span, a rank accumulator or
// `traversed`, per function, in source order, as printed source. The skiplist model (Nuts.Model.Skiplist) was
// written from these lines; NutsProofs.Facts.span_arithmetic_ok lists what it expects.
func spanFacts(pz *packages.Package) string {
	var items []string
	if pz != nil {
		for _, f := range pz.Syntax {
			if strings.Contains(pz.Fset.Position(f.Pos()).Filename, "verif_") || strings.HasSuffix(pz.Fset.Position(f.Pos()).Filename, "_test.go") {
				continue
			}
			for _, d := range f.Decls {
				fd, ok := d.(*ast.FuncDecl)
				if !ok || fd.Body == nil {
					continue
				}
				name := fd.Name.Name
				add := func(kind, text string) {
					items = append(items, fmt.Sprintf("  (%s, %s, %s)", leanStr(name), leanStr(kind), leanStr(text)))
				}
				interesting := func(s string) bool {
					return strings.Contains(s, ".span") || strings.Contains(s, "traversed") || strings.Contains(s, "rank[")
				}
				ast.Inspect(fd.Body, func(n ast.Node) bool {
					switch x := n.(type) {
					case *ast.AssignStmt:
						t := exprStr(pz.Fset, x.Lhs[0]) + " " + x.Tok.String() + " " + exprStr(pz.Fset, x.Rhs[0])
						if interesting(t) {
							add("assign", t)
						}
					case *ast.IncDecStmt:
						t := exprStr(pz.Fset, x.X) + x.Tok.String()
						if interesting(t) {
							add("incdec", t)
						}
					case *ast.ForStmt:
						if x.Cond != nil {
							t := exprStr(pz.Fset, x.Cond)
							if x.Init != nil || x.Post != nil {
								// a counting loop over levels: the whole header
								h := ""
								if as, ok := x.Init.(*ast.AssignStmt); ok {
									h = exprStr(pz.Fset, as.Lhs[0]) + " " + as.Tok.String() + " " + exprStr(pz.Fset, as.Rhs[0])
								}
								h += "; " + t + "; "
								if id, ok := x.Post.(*ast.IncDecStmt); ok {
									h += exprStr(pz.Fset, id.X) + id.Tok.String()
								}
								if strings.Contains(h, "level") {
									add("for", h)
								}
							} else if interesting(t) || strings.Contains(t, ".forward") || strings.Contains(t, "limit") {
								add("while", t)
							}
						}
					case *ast.IfStmt:
						t := exprStr(pz.Fset, x.Cond)
						if interesting(t) || strings.Contains(t, ".score") || strings.Contains(t, ".forward") {
							add("if", t)
						}
					}
					return true
				})
			}
		}
	}
	return "/-- ds/zset: every statement that reads or writes a span, `rank[]` or `traversed`, every search-loop condition and every score / forward test: (function, kind, source text), in source order -/\ndef spanStmts : List (String × String × String) := [\n" + strings.Join(items, ",\n") + "]\n\n"
}

// bptFacts: the comparisons, loop headers and split indexes of the in-memory B+ tree (bptree.go) that
// Nuts.Model.BPTree renders: for the functions of the descent, the leaf-chain scans and the insertion, every
// `if` / `for` condition and every assignment that mentions a key comparison, a prefix test, the order, a
// split index, an offset or a limit counter — (function, kind, source text), in source order.
func bptFacts(p *packages.Package) string {
	want := map[string]bool{"FindLeaf": true, "findRange": true, "getAll": true, "PrefixScan": true, "PrefixSearchScan": true, "Find": true,
		"Insert": true, "splitLeaf": true, "splitParent": true, "insertIntoLeaf": true, "insertIntoNode": true, "insertIntoParent": true,
		"insertIntoNewRoot": true, "getSplitIndex": true, "startNewTree": true}
	var items []string
	if p != nil {
		for _, f := range p.Syntax {
			if !strings.HasSuffix(p.Fset.Position(f.Pos()).Filename, "/bptree.go") {
				continue
			}
			for _, d := range f.Decls {
				fd, ok := d.(*ast.FuncDecl)
				if !ok || fd.Body == nil || !want[fd.Name.Name] {
					continue
				}
				name := fd.Name.Name
				add := func(kind, text string) {
					items = append(items, fmt.Sprintf("  (%s, %s, %s)", leanStr(name), leanStr(kind), leanStr(text)))
				}
				interesting := func(t string) bool {
					for _, w := range []string{"compare(", "HasPrefix", "order", "splitIndex", "getSplitIndex", "KeysNum", "coff", "numFound", "limitNum", "offsetNum", "scanFlag", "isLeaf"} {
						if strings.Contains(t, w) {
							return true
						}
					}
					return false
				}
				ast.Inspect(fd.Body, func(n ast.Node) bool {
					switch x := n.(type) {
					case *ast.AssignStmt:
						if len(x.Lhs) == 1 && len(x.Rhs) == 1 {
							t := exprStr(p.Fset, x.Lhs[0]) + " " + x.Tok.String() + " " + exprStr(p.Fset, x.Rhs[0])
							if interesting(t) && !strings.Contains(t, "func(") {
								add("assign", t)
							}
						}
					case *ast.IncDecStmt:
						t := exprStr(p.Fset, x.X) + x.Tok.String()
						if interesting(t) {
							add("incdec", t)
						}
					case *ast.ForStmt:
						h := ""
						if as, ok := x.Init.(*ast.AssignStmt); ok && len(as.Lhs) == 1 {
							h = exprStr(p.Fset, as.Lhs[0]) + " " + as.Tok.String() + " " + exprStr(p.Fset, as.Rhs[0])
						}
						h += "; "
						if x.Cond != nil {
							h += exprStr(p.Fset, x.Cond)
						}
						h += "; "
						if id, ok := x.Post.(*ast.IncDecStmt); ok {
							h += exprStr(p.Fset, id.X) + id.Tok.String()
						}
						add("for", h)
					case *ast.IfStmt:
						t := exprStr(p.Fset, x.Cond)
						if interesting(t) {
							add("if", t)
						}
					case *ast.ReturnStmt:
						if name == "getSplitIndex" {
							add("return", exprStr(p.Fset, x))
						}
					}
					return true
				})
			}
		}
	}
	return "/-- bptree.go: the comparisons, loop headers, split indexes, offset and limit counters of the descent, the leaf-chain scans and the insertion: (function, kind, source text), in source order -/\ndef bptStmts : List (String × String × String) := [\n" + strings.Join(items, ",\n") + "]\n\n"
}

// readPathFacts: every `if` condition (other than plain error tests) and every loop header of the key/value read
// path of tx_bptree.go — Get, GetAll, RangeScan, PrefixScan, PrefixSearchScan, the hint wrapper, and the
// sparse-mode functions above the on-disk node files — (function, kind, source text), in source order.
func readPathFacts(p *packages.Package) string {
	want := map[string]bool{"getNewKey": true, "getByHintBPTSparseIdxInMem": true, "getByHintBPTSparseIdxOnDisk": true, "getByHintBPTSparseIdx": true,
		"getAllByHintBPTSparseIdx": true, "Get": true, "GetAll": true, "RangeScan": true, "rangeScanOnDisk": true, "prefixScanOnDisk": true,
		"prefixSearchScanOnDisk": true, "processEntriesScanOnDisk": true, "prefixScanByHintBPTSparseIdx": true,
		"prefixSearchScanByHintBPTSparseIdx": true, "PrefixScan": true, "PrefixSearchScan": true, "Delete": true, "getHintIdxDataItemsWrapper": true}
	var items []string
	if p != nil {
		for _, f := range p.Syntax {
			if !strings.HasSuffix(p.Fset.Position(f.Pos()).Filename, "/tx_bptree.go") {
				continue
			}
			for _, d := range f.Decls {
				fd, ok := d.(*ast.FuncDecl)
				if !ok || fd.Body == nil || !want[fd.Name.Name] {
					continue
				}
				name := fd.Name.Name
				add := func(kind, text string) {
					items = append(items, fmt.Sprintf("  (%s, %s, %s)", leanStr(name), leanStr(kind), leanStr(text)))
				}
				ast.Inspect(fd.Body, func(n ast.Node) bool {
					switch x := n.(type) {
					case *ast.ForStmt:
						h := ""
						if as, ok := x.Init.(*ast.AssignStmt); ok && len(as.Lhs) == 1 {
							h = exprStr(p.Fset, as.Lhs[0]) + " " + as.Tok.String() + " " + exprStr(p.Fset, as.Rhs[0])
						}
						h += "; "
						if x.Cond != nil {
							h += exprStr(p.Fset, x.Cond)
						}
						h += "; "
						if id, ok := x.Post.(*ast.IncDecStmt); ok {
							h += exprStr(p.Fset, id.X) + id.Tok.String()
						}
						add("for", h)
					case *ast.RangeStmt:
						add("range", exprStr(p.Fset, x.X))
					case *ast.IfStmt:
						t := exprStr(p.Fset, x.Cond)
						if t != "err != nil" && t != "err == nil" {
							add("if", t)
						}
					case *ast.CallExpr:
						fn := exprStr(p.Fset, x.Fun)
						if fn == "sort.Sort" || fn == "sort.Slice" || strings.HasSuffix(fn, "SortFID") || fn == "sort.SliceStable" {
							add("sort", exprStr(p.Fset, x))
						}
					}
					return true
				})
			}
		}
	}
	return "/-- tx_bptree.go: conditions and loop headers of the key/value read path (RAM and sparse modes): (function, kind, source text), in source order -/\ndef readPathStmts : List (String × String × String) := [\n" + strings.Join(items, ",\n") + "]\n\n"
}

// applierFacts: the appliers of records to the in-memory indexes, at Commit (tx.go) and at Open (db.go), the
// rotation, and the scan of the data files at Open: every condition (plain error tests left out), loop header,
// switch tag, case clause and call statement — (file:function, kind, source text), in source order.
func applierFacts(p *packages.Package) string {
	return collectStmts(p, applierWant, "applierStmts", "tx.go / db.go: the appliers of records to the indexes (at Commit and at Open), rotation, and the scan of the data files at Open: (file:function, kind, source text), in source order")
}

var applierWant = map[string]map[string]bool{
	"tx.go": {"buildTempBucketMetaIdx": true, "buildBucketMetaIdx": true, "buildTxIDRootIdx": true, "buildIdxes": true, "buildBPTreeIdx": true,
		"buildSetIdx": true, "buildSortedSetIdx": true, "buildListIdx": true, "rotateActiveFile": true},
	"db.go": {"parseDataFiles": true, "buildBPTreeIdx": true, "buildActiveBPTreeIdx": true, "buildOtherIdxes": true, "buildHintIdx": true,
		"buildSetIdx": true, "buildSortedSetIdx": true, "buildListIdx": true, "getActiveFileWriteOff": true},
}

// collectStmts prints, for the listed functions (nil set = every function of the file), every condition (plain
// error tests left out), loop header, switch tag, case clause and call statement.
func collectStmts(p *packages.Package, want map[string]map[string]bool, defName, doc string) string {
	var items []string
	if p != nil {
		for _, f := range p.Syntax {
			fn := p.Fset.Position(f.Pos()).Filename
			base := fn[strings.LastIndex(fn, "/")+1:]
			set, ok := want[base]
			if !ok {
				continue
			}
			for _, d := range f.Decls {
				fd, ok := d.(*ast.FuncDecl)
				if !ok || fd.Body == nil || (set != nil && !set[fd.Name.Name]) {
					continue
				}
				name := base + ":" + fd.Name.Name
				add := func(kind, text string) {
					if strings.Contains(text, "verifFS") || strings.Contains(text, "verifCrash") {
						return
					}
					items = append(items, fmt.Sprintf("  (%s, %s, %s)", leanStr(name), leanStr(kind), leanStr(text)))
				}
				ast.Inspect(fd.Body, func(n ast.Node) bool {
					switch x := n.(type) {
					case *ast.ForStmt:
						h := ""
						if as, ok := x.Init.(*ast.AssignStmt); ok && len(as.Lhs) == 1 {
							h = exprStr(p.Fset, as.Lhs[0]) + " " + as.Tok.String() + " " + exprStr(p.Fset, as.Rhs[0])
						}
						h += "; "
						if x.Cond != nil {
							h += exprStr(p.Fset, x.Cond)
						}
						h += "; "
						if id, ok := x.Post.(*ast.IncDecStmt); ok {
							h += exprStr(p.Fset, id.X) + id.Tok.String()
						}
						add("for", h)
					case *ast.RangeStmt:
						add("range", exprStr(p.Fset, x.X))
					case *ast.IfStmt:
						t := exprStr(p.Fset, x.Cond)
						if t != "err != nil" && t != "err == nil" {
							add("if", t)
						}
					case *ast.SwitchStmt:
						if x.Tag != nil {
							add("switch", exprStr(p.Fset, x.Tag))
						}
					case *ast.CaseClause:
						var es []string
						for _, e := range x.List {
							es = append(es, exprStr(p.Fset, e))
						}
						if len(es) == 0 {
							add("case", "default")
						} else {
							add("case", strings.Join(es, ", "))
						}
					case *ast.ReturnStmt:
						for _, res := range x.Results {
							if ce, ok := res.(*ast.CallExpr); ok {
								add("return", exprStr(p.Fset, ce))
							}
						}
					case *ast.ExprStmt:
						if ce, ok := x.X.(*ast.CallExpr); ok {
							add("call", exprStr(p.Fset, ce))
						}
					case *ast.AssignStmt:
						if len(x.Rhs) == 1 {
							if ce, ok := x.Rhs[0].(*ast.CallExpr); ok {
								t := exprStr(p.Fset, ce)
								if !strings.HasPrefix(t, "make(") && !strings.HasPrefix(t, "string(") && !strings.HasPrefix(t, "len(") {
									add("call", t)
								}
							}
						}
					}
					return true
				})
			}
		}
	}
	return "/-- " + doc + " -/\ndef " + defName + " : List (String × String × String) := [\n" + strings.Join(items, ",\n") + "]\n\n"
}

// txApiFacts: the transactional API of lists, sets and sorted sets and the key/value writes: what each call
// validates and which record it queues.
func txApiFacts(p *packages.Package) string {
	return collectStmts(p, map[string]map[string]bool{"tx_list.go": nil, "tx_set.go": nil, "tx_zset.go": nil,
		"tx_bptree.go": {"Put": true, "PutWithTimestamp": true, "Delete": true}, "tx.go": {"put": true, "checkTxIsClosed": true}},
		"txApiStmts", "tx_list.go / tx_set.go / tx_zset.go and the key/value writes: conditions, loops and calls of the transactional API: (file:function, kind, source text), in source order")
}

// modeFacts: the two refusal conditions of checkEntryIdxMode, as printed source.
func modeFacts(p *packages.Package) string {
	fd := funcDecl(p, "DB", "checkEntryIdxMode")
	var conds []string
	if fd != nil {
		for _, st := range fd.Body.List {
			if is, ok := st.(*ast.IfStmt); ok {
				if len(is.Body.List) == 1 {
					if rs, ok := is.Body.List[0].(*ast.ReturnStmt); ok && len(rs.Results) == 1 {
						if _, isCall := rs.Results[0].(*ast.CallExpr); isCall {
							conds = append(conds, leanStr(exprStr(p.Fset, is.Cond)))
						}
					}
				}
			}
		}
	}
	// position of the check relative to directory creation in Open
	od := funcDecl(p, "", "Open")
	var order []string
	if od != nil {
		ast.Inspect(od, func(n ast.Node) bool {
			if ce, ok := n.(*ast.CallExpr); ok {
				s := exprStr(p.Fset, ce.Fun)
				switch {
				case strings.HasSuffix(s, "checkEntryIdxMode"):
					order = append(order, leanStr("check"))
				case strings.HasSuffix(s, "MkdirAll"):
					order = append(order, leanStr("mkdir "+exprStr(p.Fset, ce.Args[0])))
				case strings.HasSuffix(s, "buildIndexes"):
					order = append(order, leanStr("buildIndexes"))
				}
			}
			return true
		})
	}
	return fmt.Sprintf("/-- refusal conditions of `checkEntryIdxMode` -/\ndef modeRefusals : List String := [%s]\n/-- order of directory creation, mode check and index building in `Open` -/\ndef openOrder : List String := [%s]\n\n",
		strings.Join(conds, ", "), strings.Join(order, ", "))
}
