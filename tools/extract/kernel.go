package main

// SSA -> Lean translation of loop-free integer/boolean kernels.
//
// A kernel is a Go function whose control-flow graph is a DAG. Every SSA value of
// integer or boolean type that is computed from parameters, constants and other
// such values by arithmetic / comparison / conversion becomes a Lean `Int`/`Bool`
// expression with the Go wrap-around semantics made explicit. Every other integer
// or boolean value (a call result, a field load, len(x), a comparison of opaque
// values) becomes a named *input* of the kernel. Slice, index and make-slice
// operations whose operands are kernel values are recorded as events, so "this Go
// expression does not panic" is a proposition about the generated definition.

import (
	"fmt"
	"go/constant"
	"go/token"
	"go/types"
	"strings"

	"golang.org/x/tools/go/ssa"
)

type kkind int

const (
	kOpaque kkind = iota
	kInt
	kBool
)

func classify(t types.Type) kkind {
	if t == nil {
		return kOpaque
	}
	b, ok := t.Underlying().(*types.Basic)
	if !ok {
		return kOpaque
	}
	switch {
	case b.Info()&types.IsInteger != 0:
		return kInt
	case b.Info()&types.IsBoolean != 0:
		return kBool
	}
	return kOpaque
}

// wrapFor returns the Lean wrapping function for an integer type.
func wrapFor(t types.Type) string {
	b := t.Underlying().(*types.Basic)
	switch b.Kind() {
	case types.Int, types.Int64, types.UntypedInt:
		return "wrap64"
	case types.Uint, types.Uint64, types.Uintptr:
		return "wrapU64"
	case types.Uint32:
		return "wrapU32"
	case types.Uint16:
		return "wrapU16"
	case types.Uint8:
		return "wrapU8"
	case types.Int32:
		return "wrap32"
	case types.Int16:
		return "wrap16"
	case types.Int8:
		return "wrap8"
	}
	return "wrap64"
}

type kernel struct {
	fn       *ssa.Function
	leanName string
	fset     *token.FileSet

	params []string            // kernel parameters (Go int/bool params), Lean names
	ptypes []string            // "Int"/"Bool"
	inputs []string            // input names
	itypes []string            // "Int"/"Bool"
	idoc   []string            // documentation of each input
	names  map[ssa.Value]string // Lean name of each kernel value
	kinds  map[ssa.Value]kkind
	isIn   map[ssa.Value]bool // value is an input
	sites  []string           // event site documentation
}

func leanIdent(s string) string {
	switch s {
	case "end", "start", "at", "from", "to", "open", "in", "do", "then", "else", "if", "fun", "let", "have", "show", "by", "match", "with", "where", "def", "theorem", "instance", "structure", "namespace", "section", "variable", "universe", "import", "export", "prefix", "infix", "notation", "local", "private", "protected", "mutual", "deriving", "class", "abbrev", "example", "axiom", "set_option", "attribute", "macro", "syntax", "elab", "term", "tactic", "Type", "Sort", "Prop", "nil", "true", "false", "size", "key", "length", "count":
		return "p_" + s
	}
	return "p_" + s
}

func (k *kernel) pos(p token.Pos) string {
	if !p.IsValid() {
		return "?"
	}
	ps := k.fset.Position(p)
	f := ps.Filename
	if i := strings.Index(f, "/repo/"); i >= 0 {
		f = f[i+6:]
	}
	return fmt.Sprintf("%s:%d", f, ps.Line)
}

func (k *kernel) addInput(v ssa.Value, doc string) {
	kind := classify(v.Type())
	name := "in_" + strings.ReplaceAll(v.Name(), ".", "_")
	k.names[v] = name
	k.kinds[v] = kind
	k.isIn[v] = true
	k.inputs = append(k.inputs, name)
	if kind == kBool {
		k.itypes = append(k.itypes, "Bool")
	} else {
		k.itypes = append(k.itypes, "Int")
	}
	k.idoc = append(k.idoc, doc)
}

// kval reports whether v is usable as a kernel expression, and returns it.
func (k *kernel) kval(v ssa.Value) (string, bool) {
	if c, ok := v.(*ssa.Const); ok {
		switch classify(c.Type()) {
		case kInt:
			if c.Value == nil {
				return "0", true
			}
			s := c.Value.ExactString()
			if strings.HasPrefix(s, "-") {
				return "(" + s + ")", true
			}
			return s, true
		case kBool:
			if constant.BoolVal(c.Value) {
				return "true", true
			}
			return "false", true
		}
		return "", false
	}
	if n, ok := k.names[v]; ok {
		return n, true
	}
	return "", false
}

// render re-renders the expression of a translated value with its operands given by val.
func (k *kernel) render(v ssa.Value, val func(ssa.Value) (string, bool)) string {
	switch x := v.(type) {
	case *ssa.BinOp:
		a, _ := val(x.X)
		b, _ := val(x.Y)
		xk := classify(x.X.Type())
		switch x.Op {
		case token.ADD:
			return fmt.Sprintf("%s (%s + %s)", wrapFor(x.Type()), a, b)
		case token.SUB:
			return fmt.Sprintf("%s (%s - %s)", wrapFor(x.Type()), a, b)
		case token.MUL:
			return fmt.Sprintf("%s (%s * %s)", wrapFor(x.Type()), a, b)
		case token.QUO:
			return fmt.Sprintf("%s (Int.tdiv %s %s)", wrapFor(x.Type()), a, b)
		case token.REM:
			return fmt.Sprintf("%s (Int.tmod %s %s)", wrapFor(x.Type()), a, b)
		case token.LSS:
			return fmt.Sprintf("decide (%s < %s)", a, b)
		case token.LEQ:
			return fmt.Sprintf("decide (%s ≤ %s)", a, b)
		case token.GTR:
			return fmt.Sprintf("decide (%s > %s)", a, b)
		case token.GEQ:
			return fmt.Sprintf("decide (%s ≥ %s)", a, b)
		case token.EQL:
			if xk == kBool {
				return fmt.Sprintf("%s == %s", a, b)
			}
			return fmt.Sprintf("decide (%s = %s)", a, b)
		case token.NEQ:
			if xk == kBool {
				return fmt.Sprintf("%s != %s", a, b)
			}
			return fmt.Sprintf("decide (%s ≠ %s)", a, b)
		}
	case *ssa.UnOp:
		a, _ := val(x.X)
		if x.Op == token.SUB {
			return fmt.Sprintf("%s (- %s)", wrapFor(x.Type()), a)
		}
		return fmt.Sprintf("!%s", a)
	case *ssa.Convert:
		a, _ := val(x.X)
		return fmt.Sprintf("%s %s", wrapFor(x.Type()), a)
	case *ssa.ChangeType:
		a, _ := val(x.X)
		return a
	}
	return "0"
}

func isNilConst(v ssa.Value) bool {
	c, ok := v.(*ssa.Const)
	return ok && c.Value == nil && classify(c.Type()) == kOpaque
}

// translate emits Lean for one kernel. It returns the Lean text or an error text.
func translateKernel(fn *ssa.Function, leanName string, fset *token.FileSet) (string, map[string]interface{}, error) {
	k := &kernel{fn: fn, leanName: leanName, fset: fset,
		names: map[ssa.Value]string{}, kinds: map[ssa.Value]kkind{}, isIn: map[ssa.Value]bool{}}
	if len(fn.Blocks) == 0 {
		return "", nil, fmt.Errorf("no body")
	}
	// DAG check + reverse topological order.
	state := map[*ssa.BasicBlock]int{}
	var order []*ssa.BasicBlock
	var cyc bool
	var dfs func(b *ssa.BasicBlock)
	dfs = func(b *ssa.BasicBlock) {
		state[b] = 1
		for _, s := range b.Succs {
			if state[s] == 1 {
				cyc = true
			} else if state[s] == 0 {
				dfs(s)
			}
		}
		state[b] = 2
		order = append(order, b) // successors first
	}
	dfs(fn.Blocks[0])
	if cyc {
		return "", nil, fmt.Errorf("control-flow graph has a cycle (loop): not a kernel")
	}
	// parameters
	for _, p := range fn.Params {
		kd := classify(p.Type())
		if kd == kOpaque {
			continue
		}
		n := leanIdent(p.Name())
		k.names[p] = n
		k.kinds[p] = kd
		k.params = append(k.params, n)
		if kd == kBool {
			k.ptypes = append(k.ptypes, "Bool")
		} else {
			k.ptypes = append(k.ptypes, "Int")
		}
	}
	// First pass in block order: decide for every value-producing instruction whether it is
	// a kernel expression, an input, or opaque; build the expression text.
	exprs := map[ssa.Value]string{}
	type event struct{ text string }
	blockEvents := map[ssa.Instruction]string{}
	siteOf := map[ssa.Instruction]int{}
	newSite := func(desc string) int {
		k.sites = append(k.sites, desc)
		return len(k.sites) - 1
	}
	optInt := func(v ssa.Value) string {
		if v == nil {
			return "none"
		}
		if s, ok := k.kval(v); ok {
			return "(some " + s + ")"
		}
		return "none"
	}
	// blocks in index order dominate uses except phis
	for _, b := range fn.Blocks {
		if state[b] == 0 {
			continue // unreachable
		}
		for _, ins := range b.Instrs {
			switch v := ins.(type) {
			case *ssa.Phi:
				kd := classify(v.Type())
				if kd != kOpaque {
					k.names[v] = "phi_" + v.Name()
					k.kinds[v] = kd
				}
			case *ssa.BinOp:
				kd := classify(v.Type())
				if kd == kOpaque {
					continue
				}
				x, okx := k.kval(v.X)
				y, oky := k.kval(v.Y)
				if !okx || !oky {
					// comparison of opaque values (e.g. err != nil) or mixed: an input
					k.addInput(v, fmt.Sprintf("%s  -- %s = %s", k.pos(v.Pos()), v.Name(), v.String()))
					continue
				}
				var e string
				xk := classify(v.X.Type())
				switch v.Op {
				case token.ADD:
					e = fmt.Sprintf("%s (%s + %s)", wrapFor(v.Type()), x, y)
				case token.SUB:
					e = fmt.Sprintf("%s (%s - %s)", wrapFor(v.Type()), x, y)
				case token.MUL:
					e = fmt.Sprintf("%s (%s * %s)", wrapFor(v.Type()), x, y)
				case token.QUO:
					site := newSite(fmt.Sprintf("%s  division %s", k.pos(v.Pos()), v.String()))
					blockEvents[ins] = fmt.Sprintf("KEv.div %d %s", site, y)
					siteOf[ins] = site
					e = fmt.Sprintf("%s (Int.tdiv %s %s)", wrapFor(v.Type()), x, y)
				case token.REM:
					site := newSite(fmt.Sprintf("%s  remainder %s", k.pos(v.Pos()), v.String()))
					blockEvents[ins] = fmt.Sprintf("KEv.div %d %s", site, y)
					siteOf[ins] = site
					e = fmt.Sprintf("%s (Int.tmod %s %s)", wrapFor(v.Type()), x, y)
				case token.LSS:
					e = fmt.Sprintf("decide (%s < %s)", x, y)
				case token.LEQ:
					e = fmt.Sprintf("decide (%s ≤ %s)", x, y)
				case token.GTR:
					e = fmt.Sprintf("decide (%s > %s)", x, y)
				case token.GEQ:
					e = fmt.Sprintf("decide (%s ≥ %s)", x, y)
				case token.EQL:
					if xk == kBool {
						e = fmt.Sprintf("(%s == %s)", x, y)
					} else {
						e = fmt.Sprintf("decide (%s = %s)", x, y)
					}
				case token.NEQ:
					if xk == kBool {
						e = fmt.Sprintf("(%s != %s)", x, y)
					} else {
						e = fmt.Sprintf("decide (%s ≠ %s)", x, y)
					}
				default:
					k.addInput(v, fmt.Sprintf("%s  -- %s = %s (operator not translated)", k.pos(v.Pos()), v.Name(), v.String()))
					continue
				}
				k.names[v] = v.Name()
				k.kinds[v] = kd
				exprs[v] = e
			case *ssa.UnOp:
				kd := classify(v.Type())
				if kd == kOpaque {
					continue
				}
				x, okx := k.kval(v.X)
				switch {
				case v.Op == token.SUB && okx:
					k.names[v] = v.Name()
					k.kinds[v] = kd
					exprs[v] = fmt.Sprintf("%s (- %s)", wrapFor(v.Type()), x)
				case v.Op == token.NOT && okx:
					k.names[v] = v.Name()
					k.kinds[v] = kd
					exprs[v] = fmt.Sprintf("(!%s)", x)
				default:
					k.addInput(v, fmt.Sprintf("%s  -- %s = %s", k.pos(v.Pos()), v.Name(), v.String()))
				}
			case *ssa.Convert:
				kd := classify(v.Type())
				if kd != kInt {
					continue
				}
				if x, ok := k.kval(v.X); ok && classify(v.X.Type()) == kInt {
					k.names[v] = v.Name()
					k.kinds[v] = kd
					exprs[v] = fmt.Sprintf("%s %s", wrapFor(v.Type()), x)
				} else {
					k.addInput(v, fmt.Sprintf("%s  -- %s = %s", k.pos(v.Pos()), v.Name(), v.String()))
				}
			case *ssa.ChangeType:
				kd := classify(v.Type())
				if kd == kOpaque {
					continue
				}
				if x, ok := k.kval(v.X); ok {
					k.names[v] = v.Name()
					k.kinds[v] = kd
					exprs[v] = x
				} else {
					k.addInput(v, fmt.Sprintf("%s  -- %s = %s", k.pos(v.Pos()), v.Name(), v.String()))
				}
			case *ssa.Slice:
				site := newSite(fmt.Sprintf("%s  %s = %s", k.pos(v.Pos()), v.Name(), v.String()))
				blockEvents[ins] = fmt.Sprintf("KEv.slice %d %s %s", site, optInt(v.Low), optInt(v.High))
					siteOf[ins] = site
			case *ssa.IndexAddr:
				if s, ok := k.kval(v.Index); ok {
					if _, isConst := v.Index.(*ssa.Const); !isConst {
						site := newSite(fmt.Sprintf("%s  %s = %s", k.pos(v.Pos()), v.Name(), v.String()))
						blockEvents[ins] = fmt.Sprintf("KEv.index %d %s", site, s)
					siteOf[ins] = site
					}
				}
			case *ssa.Index:
				if s, ok := k.kval(v.Index); ok {
					if _, isConst := v.Index.(*ssa.Const); !isConst {
						site := newSite(fmt.Sprintf("%s  %s = %s", k.pos(v.Pos()), v.Name(), v.String()))
						blockEvents[ins] = fmt.Sprintf("KEv.index %d %s", site, s)
					siteOf[ins] = site
					}
				}
				if classify(v.Type()) != kOpaque {
					k.addInput(v, fmt.Sprintf("%s  -- %s = %s", k.pos(v.Pos()), v.Name(), v.String()))
				}
			case *ssa.MakeSlice:
				site := newSite(fmt.Sprintf("%s  %s = %s", k.pos(v.Pos()), v.Name(), v.String()))
				blockEvents[ins] = fmt.Sprintf("KEv.make %d %s", site, optInt(v.Len))
					siteOf[ins] = site
			case ssa.Value:
				// calls, extracts, loads, lookups, ...: inputs when integer/boolean
				if classify(v.Type()) != kOpaque {
					k.addInput(v, fmt.Sprintf("%s  -- %s = %s", k.pos(ins.Pos()), v.Name(), v.String()))
				}
			}
		}
	}
	// ---- tree emission: the DAG is expanded into one nested if-then-else expression; every
	// SSA value is substituted by its expression (phis by the value flowing along the path taken).
	var sb strings.Builder
	fmt.Fprintf(&sb, "/-! ### kernel `%s`  (from `%s`, %s) -/\n", leanName, fn.String(), k.pos(fn.Pos()))
	fmt.Fprintf(&sb, "namespace %s\n", leanName)
	fmt.Fprintf(&sb, "-- parameters: %s\n", strings.Join(k.params, ", "))
	for i, in := range k.inputs {
		fmt.Fprintf(&sb, "-- input %s : %s  <- %s\n", in, k.itypes[i], k.idoc[i])
	}
	for i, s := range k.sites {
		fmt.Fprintf(&sb, "-- site %d: %s\n", i, s)
	}
	var common []string
	for i, p := range k.params {
		common = append(common, fmt.Sprintf("(%s : %s)", p, k.ptypes[i]))
	}
	for i, p := range k.inputs {
		common = append(common, fmt.Sprintf("(%s : %s)", p, k.itypes[i]))
	}
	nodes := 0
	// condProp renders a boolean expression as a Prop where possible
	condProp := func(e string) string {
		if strings.HasPrefix(e, "decide (") && strings.HasSuffix(e, ")") {
			return strings.TrimSuffix(strings.TrimPrefix(e, "decide ("), ")")
		}
		return e + " = true"
	}
	type envT map[ssa.Value]string
	var subst func(v ssa.Value, env envT) (string, bool)
	subst = func(v ssa.Value, env envT) (string, bool) {
		if s, ok := env[v]; ok {
			return s, true
		}
		return k.kval(v)
	}
	// exprOf re-renders the expression of v under env (operands substituted)
	// canonical atom of a condition: (atom, polarity); a ≥ b is ¬(a < b), a > b is ¬(a ≤ b), a ≠ b is ¬(a = b)
	canon := func(c string) (string, bool) {
		for _, r := range [][3]string{{" ≥ ", " < ", "n"}, {" > ", " ≤ ", "n"}, {" ≠ ", " = ", "n"}} {
			if i := strings.Index(c, r[0]); i >= 0 && strings.Count(c, r[0]) == 1 && !strings.ContainsAny(c, "<≤=") {
				return c[:i] + r[1] + c[i+len(r[0]):], false
			}
		}
		return c, true
	}
	known := map[string]bool{}
	var emit func(b *ssa.BasicBlock, from *ssa.BasicBlock, env envT, evs []string, indent string) string
	emit = func(b *ssa.BasicBlock, from *ssa.BasicBlock, env envT, evs []string, indent string) string {
		nodes++
		if nodes > 20000 {
			return "default /- kernel too large -/"
		}
		env2 := envT{}
		for k2, v2 := range env {
			env2[k2] = v2
		}
		env = env2
		// phis
		if from != nil {
			pi := -1
			for i, p := range b.Preds {
				if p == from {
					pi = i
				}
			}
			newvals := map[ssa.Value]string{}
			for _, ins := range b.Instrs {
				phi, ok := ins.(*ssa.Phi)
				if !ok {
					break
				}
				if _, named := k.names[phi]; !named {
					continue
				}
				s, ok := subst(phi.Edges[pi], env)
				if !ok {
					s = "0"
				}
				newvals[phi] = s
			}
			for v, s := range newvals {
				env[v] = s
			}
		}
		val := func(v ssa.Value) (string, bool) { return subst(v, env) }
		oInt := func(v ssa.Value) string {
			if v == nil {
				return "none"
			}
			if s, ok := val(v); ok {
				return "(some (" + s + "))"
			}
			return "none"
		}
		for _, ins := range b.Instrs {
			if v, ok := ins.(ssa.Value); ok {
				if _, isExpr := exprs[v]; isExpr {
					env[v] = "(" + k.render(v, val) + ")"
				}
			}
			if _, ok := blockEvents[ins]; ok {
				switch x := ins.(type) {
				case *ssa.Slice:
					evs = append(evs, fmt.Sprintf("KEv.slice %d %s %s", siteOf[ins], oInt(x.Low), oInt(x.High)))
				case *ssa.IndexAddr:
					s, _ := val(x.Index)
					evs = append(evs, fmt.Sprintf("KEv.index %d (%s)", siteOf[ins], s))
				case *ssa.Index:
					s, _ := val(x.Index)
					evs = append(evs, fmt.Sprintf("KEv.index %d (%s)", siteOf[ins], s))
				case *ssa.MakeSlice:
					evs = append(evs, fmt.Sprintf("KEv.make %d %s", siteOf[ins], oInt(x.Len)))
				case *ssa.BinOp:
					s, _ := val(x.Y)
					evs = append(evs, fmt.Sprintf("KEv.div %d (%s)", siteOf[ins], s))
				}
			}
			switch t := ins.(type) {
			case *ssa.If:
				c, ok := val(t.Cond)
				if !ok {
					c = "false"
				}
				c = strings.TrimSuffix(strings.TrimPrefix(c, "("), ")")
				atom, pol := canon(condProp(c))
				if kv, ok := known[atom]; ok {
					// the same test was already decided on this path: follow the feasible branch only
					if kv == pol {
						return emit(b.Succs[0], b, env, evs, indent)
					}
					return emit(b.Succs[1], b, env, evs, indent)
				}
				known[atom] = pol
				thenS := emit(b.Succs[0], b, env, evs, indent+"  ")
				known[atom] = !pol
				elseS := emit(b.Succs[1], b, env, evs, indent+"  ")
				delete(known, atom)
				return fmt.Sprintf("if %s then\n%s  %s\n%selse\n%s  %s", condProp(c), indent, thenS, indent, indent, elseS)
				return fmt.Sprintf("if %s then\n%s  %s\n%selse\n%s  %s", condProp(c), indent, emit(b.Succs[0], b, env, evs, indent+"  "), indent, indent, emit(b.Succs[1], b, env, evs, indent+"  "))
			case *ssa.Jump:
				return emit(b.Succs[0], b, env, evs, indent)
			case *ssa.Return:
				var vals []string
				for _, r := range t.Results {
					kd := classify(r.Type())
					s, ok := val(r)
					switch {
					case kd == kInt && ok:
						vals = append(vals, s)
					case kd == kBool && ok:
						vals = append(vals, fmt.Sprintf("(if %s then 1 else 0)", condProp(strings.TrimSuffix(strings.TrimPrefix(s, "("), ")"))))
					case isNilConst(r):
						vals = append(vals, "0")
					default:
						vals = append(vals, "1")
					}
				}
				return fmt.Sprintf("{ events := [%s], ret := %d, vals := [%s] }", strings.Join(evs, ", "), b.Index, strings.Join(vals, ", "))
			case *ssa.Panic:
				return fmt.Sprintf("{ events := [%s], ret := %d, vals := [] }", strings.Join(append(evs, "KEv.explicitPanic"), ", "), b.Index)
			}
		}
		return "default"
	}
	body := emit(fn.Blocks[0], nil, envT{}, nil, "  ")
	if nodes > 20000 {
		return "", nil, fmt.Errorf("kernel expands to more than 20000 tree nodes")
	}
	fmt.Fprintf(&sb, "def run %s : KOut :=\n  %s\n", strings.Join(common, " "), body)
	fmt.Fprintf(&sb, "end %s\n\n", leanName)
	_ = order
	meta := map[string]interface{}{
		"name": leanName, "go": fn.String(), "pos": k.pos(fn.Pos()),
		"params": k.params, "inputs": k.inputs, "input_docs": k.idoc, "sites": k.sites, "tree_nodes": nodes,
	}
	return sb.String(), meta, nil
}

func valueOf(ins ssa.Instruction) ssa.Value {
	if v, ok := ins.(ssa.Value); ok {
		return v
	}
	return nil
}
