package main

import (
	"golang.org/x/tools/go/ssa"
)

// lockFacts is filled in by effects.go (group D); placeholder keeps the generated file stable.
func lockFacts(prog *ssa.Program, sp *ssa.Package) string {
	return effectFacts(prog, sp)
}
