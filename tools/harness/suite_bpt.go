//go:build verif

package main

import (
	"fmt"
	"math/rand"
	"strings"

	"github.com/xujiajun/nutsdb"
)

// bpt-ds: the exported B+ tree type, directly: insert sequences (new keys and overwrites, ascending,
// descending and random order, enough keys for three levels), every query, and the shape of the tree
// (keys per node, children) after every few insertions.
//
//	ins <key> <val> / find <key> / range <s> <e> / prefix <p> <off> <lim> / psearch <p> <rx> <off> <lim> / all / shape
type bptSuite struct {
	t     *nutsdb.BPTree
	n     int
	order int // 0 random, 1 ascending, 2 descending
	next  int
	keys  [][]byte
}

func init() { suites["bpt-ds"] = func() suite { return &bptSuite{} } }

func (s *bptSuite) newCase(id int) {
	s.t = nutsdb.NewTree()
	s.n, s.next, s.keys = 0, 0, nil
	s.order = id % 3
}
func (s *bptSuite) endCase() {}

func (s *bptSuite) key(r *rand.Rand) []byte {
	switch r.Intn(10) {
	case 0:
		return keyAlphabet[r.Intn(len(keyAlphabet))]
	case 1:
		if len(s.keys) > 0 {
			return s.keys[r.Intn(len(s.keys))]
		}
	}
	switch s.order {
	case 1:
		s.next++
		return []byte(fmt.Sprintf("k%04d", s.next))
	case 2:
		s.next++
		return []byte(fmt.Sprintf("k%04d", 9999-s.next))
	}
	return []byte(fmt.Sprintf("k%03d%s", r.Intn(400), []string{"", "", "a", "ab"}[r.Intn(4)]))
}

func (s *bptSuite) gen(r *rand.Rand, step int) string {
	if step%9 == 8 {
		return "shape"
	}
	switch x := r.Intn(20); {
	case x < 12:
		k := s.key(r)
		s.keys = append(s.keys, k)
		return fmt.Sprintf("ins %s %s", hx(k), hx(pickVal(r)))
	case x < 14:
		return "find " + hx(s.key(r))
	case x < 16:
		a, b := s.key(r), s.key(r)
		if string(a) > string(b) && r.Intn(5) != 0 {
			a, b = b, a
		}
		return fmt.Sprintf("range %s %s", hx(a), hx(b))
	case x < 18:
		p := s.key(r)
		if len(p) > 0 {
			p = p[:r.Intn(len(p)+1)]
		}
		lim := r.Intn(12) + 1
		if r.Intn(3) == 0 {
			lim = -1
		}
		return fmt.Sprintf("prefix %s %d %d", hx(p), r.Intn(12), lim)
	case x < 19:
		p := s.key(r)
		if len(p) > 0 {
			p = p[:r.Intn(len(p)+1)]
		}
		return fmt.Sprintf("psearch %s %d %d %d", hx(p), r.Intn(len(rxSet)), r.Intn(4), r.Intn(8)-1)
	default:
		return "all"
	}
}

func bptShape(n *nutsdb.VerifBPTNode) string {
	if n == nil {
		return "nil"
	}
	if n.Leaf {
		var ks []string
		for _, k := range n.Keys {
			ks = append(ks, hx(k))
		}
		return "L[" + strings.Join(ks, ",") + "]"
	}
	out := "I(" + bptShape(n.Children[0])
	for i, k := range n.Keys {
		out += "|" + hx(k) + "|" + bptShape(n.Children[i+1])
	}
	return out + ")"
}

func showRecords(rs nutsdb.Records) string {
	var p []string
	for _, r := range rs {
		p = append(p, hx(r.VerifKey())+"="+hx(r.VerifValue()))
	}
	return "ok [" + strings.Join(p, ",") + "]"
}

func (s *bptSuite) exec(line string) string {
	f := strings.Fields(line)
	switch f[0] {
	case "ins":
		if err := s.t.VerifInsert(unhx(f[1]), unhx(f[2])); err != nil {
			return "err"
		}
		return "ok"
	case "find":
		r, err := s.t.Find(unhx(f[1]))
		if err != nil {
			return "err"
		}
		return "ok " + hx(r.VerifValue())
	case "range":
		rs, err := s.t.Range(unhx(f[1]), unhx(f[2]))
		if err != nil {
			return "err"
		}
		return showRecords(rs)
	case "prefix":
		rs, off, err := s.t.PrefixScan(unhx(f[1]), atoi(f[2]), atoi(f[3]))
		if err != nil {
			return fmt.Sprintf("err off=%d", off)
		}
		return showRecords(rs) + fmt.Sprintf(" off=%d", off)
	case "psearch":
		rs, off, err := s.t.PrefixSearchScan(unhx(f[1]), rxSet[atoi(f[2])], atoi(f[3]), atoi(f[4]))
		if err != nil {
			return fmt.Sprintf("err off=%d", off)
		}
		return showRecords(rs) + fmt.Sprintf(" off=%d", off)
	case "all":
		rs, err := s.t.All()
		if err != nil {
			return "err"
		}
		return showRecords(rs)
	case "shape":
		return bptShape(s.t.VerifDump())
	}
	return "bad-op"
}
