//go:build verif

package main

import (
	"crypto/sha1"
	"fmt"
	"io/fs"
	"math/rand"
	"os"
	"path/filepath"
	"sort"
	"strings"

	"github.com/xujiajun/nutsdb"
)

// modes: index-mode compatibility of Open (C22). One case = one directory prepared in one mode and one
// state, then opened (on a copy each time) with every index mode.
//
//	mk <created-mode> <state> <n>   => ok dats=<ids> bpt=<0|1> obs=<digest of all KV contents | ->
//	    state: empty | fresh | written | merged | crashed | crashopen   (n: workload size / crash point)
//	reopen <mode>                    => ok obs=<digest> | refused unchanged=<true|false> (the mode check said no) | err unchanged=… (Open failed otherwise)
type modesSuite struct {
	scratch string
	dir     string
	created int
	rng     *rand.Rand
	step    int
	plan    []string
}

func init() { suites["modes"] = func() suite { return &modesSuite{} } }

func (s *modesSuite) newCase(id int) {
	base := "/dev/shm"
	if _, err := os.Stat(base); err != nil {
		base = os.TempDir()
	}
	d, err := os.MkdirTemp(base, "nutsverif-modes-")
	if err != nil {
		panic(err)
	}
	s.scratch = d
	s.dir = d + "/db"
	s.plan = nil
	nutsdb.VerifFSHook = nil
}

func (s *modesSuite) endCase() {
	nutsdb.VerifFSHook = nil
	os.RemoveAll(s.scratch)
}

func (s *modesSuite) gen(r *rand.Rand, step int) string {
	if step == 0 {
		created := r.Intn(3)
		states := []string{"empty", "fresh", "written", "written", "merged", "crashed", "crashed", "crashopen"}
		st := states[r.Intn(len(states))]
		if st == "merged" && created == 2 {
			st = "written"
		}
		s.plan = []string{"reopen 0", "reopen 1", "reopen 2"}
		r.Shuffle(3, func(i, j int) { s.plan[i], s.plan[j] = s.plan[j], s.plan[i] })
		// ... and once with an Options literal that names the directory and the mode only (every other field zero)
		s.plan = append(s.plan, fmt.Sprintf("reopen %d lit", r.Intn(3)))
		return fmt.Sprintf("mk %d %s %d", created, st, 1+r.Intn(40))
	}
	if step-1 < len(s.plan) {
		return s.plan[step-1]
	}
	return ""
}

func modeOpts(mode int, dir string) nutsdb.Options {
	opt := nutsdb.DefaultOptions
	opt.Dir = dir
	opt.SegmentSize = 256
	opt.EntryIdxMode = nutsdb.EntryIdxMode(mode)
	opt.SyncEnable = false
	return opt
}

func copyTree(src, dst string) error {
	return filepath.WalkDir(src, func(p string, d fs.DirEntry, err error) error {
		if err != nil {
			return err
		}
		rel, _ := filepath.Rel(src, p)
		t := filepath.Join(dst, rel)
		if d.IsDir() {
			return os.MkdirAll(t, 0755)
		}
		b, err := os.ReadFile(p)
		if err != nil {
			return err
		}
		return os.WriteFile(t, b, 0644)
	})
}

// treeDigest: every path below dir with its kind and content hash
func treeDigest(dir string) string {
	var items []string
	filepath.WalkDir(dir, func(p string, d fs.DirEntry, err error) error {
		if err != nil {
			return nil
		}
		rel, _ := filepath.Rel(dir, p)
		if d.IsDir() {
			items = append(items, rel+"/")
			return nil
		}
		b, _ := os.ReadFile(p)
		items = append(items, fmt.Sprintf("%s:%x", rel, sha1.Sum(b)))
		return nil
	})
	sort.Strings(items)
	return fmt.Sprintf("%x", sha1.Sum([]byte(strings.Join(items, "\n"))))
}

func listingFlags(dir string) string {
	ents, err := os.ReadDir(dir)
	if err != nil {
		return "dats=[] bpt=0"
	}
	var ids []string
	bpt := 0
	for _, e := range ents {
		if strings.HasSuffix(e.Name(), ".dat") {
			ids = append(ids, strings.TrimSuffix(e.Name(), ".dat"))
		}
		if e.Name() == "bpt" {
			bpt = 1
		}
	}
	return fmt.Sprintf("dats=[%s] bpt=%d", strings.Join(ids, ","), bpt)
}

var modesBuckets = []string{"a", "ab", "b"}

// kvDigest: all key/value pairs of the fixed buckets through GetAll
func kvDigest(db *nutsdb.DB) string {
	var items []string
	db.View(func(tx *nutsdb.Tx) error {
		for _, b := range modesBuckets {
			es, err := tx.GetAll(b)
			if err != nil {
				items = append(items, b+":err")
				continue
			}
			for _, e := range es {
				if e == nil {
					items = append(items, b+":nil")
					continue
				}
				items = append(items, fmt.Sprintf("%s:%x=%x", b, e.Key, e.Value))
			}
		}
		return nil
	})
	return fmt.Sprintf("%x", sha1.Sum([]byte(strings.Join(items, "\n"))))[:16]
}

func (s *modesSuite) workload(db *nutsdb.DB, r *rand.Rand, n int) {
	for i := 0; i < n; i++ {
		db.Update(func(tx *nutsdb.Tx) error {
			for j := 0; j < 1+r.Intn(3); j++ {
				b := modesBuckets[r.Intn(len(modesBuckets))]
				k := []byte(fmt.Sprintf("k%02d", r.Intn(12)))
				if r.Intn(4) == 0 {
					tx.Delete(b, k)
				} else {
					tx.Put(b, k, []byte(strings.Repeat("v", 1+r.Intn(30))), 0)
				}
			}
			return nil
		})
	}
}

func (s *modesSuite) exec(line string) string {
	f := strings.Fields(line)
	switch f[0] {
	case "mk":
		created, state, n := atoi(f[1]), f[2], atoi(f[3])
		s.created = created
		r := rand.New(rand.NewSource(int64(n)*7919 + int64(created)))
		os.RemoveAll(s.dir)
		obs := "-"
		switch state {
		case "empty":
			os.MkdirAll(s.dir, 0755)
		case "fresh", "written", "merged":
			db, err := nutsdb.Open(modeOpts(created, s.dir))
			if err != nil {
				return "err-open"
			}
			if state != "fresh" {
				s.workload(db, r, n)
			}
			if state == "merged" {
				db.Merge()
				s.workload(db, r, 2)
			}
			obs = kvDigest(db)
			db.Close()
		case "crashed", "crashopen":
			// the directory as a crash at the k-th file mutation leaves it (k = n); `crashopen`: during the
			// very first Open
			cnt := 0
			img := s.scratch + "/img"
			os.RemoveAll(img)
			taken := false
			nutsdb.VerifFSHook = func(op, path string, off int64, data []byte) error {
				if taken || !strings.HasPrefix(path, s.dir) {
					return nil
				}
				switch op {
				case "mkdir", "create", "truncate", "write", "remove":
					cnt++
					lim := n
					if state == "crashopen" {
						lim = 1 + n%6
					}
					if cnt == lim {
						taken = true
						if _, err := os.Stat(s.dir); err == nil {
							copyTree(s.dir, img)
						} else {
							os.MkdirAll(img, 0755)
						}
					}
				}
				return nil
			}
			db, err := nutsdb.Open(modeOpts(created, s.dir))
			if err == nil {
				if state == "crashed" {
					s.workload(db, r, 12)
				}
				db.Close()
			}
			nutsdb.VerifFSHook = nil
			if !taken {
				copyTree(s.dir, img)
			}
			os.RemoveAll(s.dir)
			os.Rename(img, s.dir)
		}
		return "ok " + listingFlags(s.dir) + " obs=" + obs
	case "reopen":
		mode := atoi(f[1])
		cp := s.scratch + "/try"
		os.RemoveAll(cp)
		if err := copyTree(s.dir, cp); err != nil {
			return "err-copy"
		}
		before := treeDigest(cp)
		opts := modeOpts(mode, cp)
		if len(f) > 2 && f[2] == "lit" {
			opts = nutsdb.Options{Dir: cp, EntryIdxMode: nutsdb.EntryIdxMode(mode)}
		}
		db, err := nutsdb.Open(opts)
		if err != nil {
			if os.Getenv("VERIF_PANIC_TRACE") != "" {
				fmt.Fprintln(os.Stderr, "reopen error:", err)
			}
			// the kind of error matters here: a refusal by the mode check, or some other failure of Open
			kind := "err"
			if strings.Contains(err.Error(), "switch to") {
				kind = "refused"
			}
			return fmt.Sprintf("%s unchanged=%v", kind, treeDigest(cp) == before)
		}
		obs := kvDigest(db)
		db.Close()
		return "ok obs=" + obs
	}
	return "bad-op"
}
