//go:build verif

package main

import (
	"errors"
	"flag"
	"fmt"
	"math"
	"math/rand"
	"os"
	"regexp"
	"sort"
	"strconv"
	"strings"
	"sync"
	"time"

	"github.com/xujiajun/nutsdb"
	"github.com/xujiajun/nutsdb/ds/zset"
)

// db suite: the database through its public API (RAM index modes), one operation per line.
type dbSuite struct {
	// noList: this case of a Merge profile has no list operations (a list record in a data file puts every later
	// Merge of the case under finding D-MERGE-LIST, which hides what Merge does to sets and sorted sets)
	noList  bool
	// writes of this case that may be issued again verbatim (a member or key set back to an earlier state:
	// the records A, B, A — what a "skip the duplicate" shortcut in Merge or recovery gets wrong)
	again   []string
	// lines to emit next, inside the current transaction (a burst A, B, A of writes to one member)
	pendOps []string
	script  []string // lines emitted verbatim before anything else is generated (see burst)
	// a set key whose members were all removed a moment ago (the key stays, with no members): the next set
	// operations go to it — an emptied structure is where a "pick one member" shortcut breaks
	emptiedB, emptiedK string
	dir                string
	db      *nutsdb.DB
	tx      *nutsdb.Tx
	opt     nutsdb.Options
	profile string
	// generator state
	inTx     bool
	txW      bool
	txLeft   int
	opened   bool
	pendObs  bool
	hookMu   sync.Mutex
	lockIDs  []uint64
	scratch  string
	usedKeys map[string][][]byte
	nkeys    int
	// opts profiles (C19): cases come in groups that share one script generator stream and one clock value and
	// differ only in the storage options
	optRng   *rand.Rand
	optCombo int
	optNow   int64
	faultAt  int // injected write error: index of the data-file write of the next commit that fails (-1: none)
	faultCnt int
	inCommit bool
	lastMarker bool
	sfaultCnt int
	sfaultAt int // injected sync error: index of the data-file sync of the next commit that fails (-1: none)
	bigTx    int // kvbig: transactions begun so far
	bigLoad  int // kvbig: number of leading bulk-load transactions
	openLine string
	// crash-image capture (armed by a `capture` line for the next commit / merge)
	capture      bool
	armed        bool
	images       []crashImage
	imgLeft      int
	imgNext      int
	armedGen     bool
	// mergedOnce: a Merge ran on this handle (profile mcrash then also captures the crash and power-loss points of
	// some later commits: what a commit does after a Merge on the same handle)
	mergedOnce bool
	bkN          int // backups taken in this case
	bkAfterMerge bool
	bkPending    int // transactions to go before the last backup is opened and observed (-1: none pending)
	faultGen     bool
	mergeNext    bool
	// power-loss shadow: content that has reached stable storage (sync'ed), pending writes per file
	durable  map[string][]byte
	pending  map[string][]pendWrite
	interned map[string][]byte
}

type pendWrite struct {
	off  int64
	data []byte
}

// crashImage is the content of the database directory at one file-mutation point.
type crashImage struct {
	event string            // the mutation that was about to happen
	files map[string][]byte // data files (name -> content)
	torn  int               // bytes of the pending write that reached the file (0 = none)
}

var dbProfile = "mixed"

// noSMove: a concurrent run that is judged line by line leaves SMove* out (finding D-SMOVE: they mutate the
// committed set index under the read lock, so what concurrent readers see is not a function of the lock order)
var noSMove bool

func init() {
	suites["db"] = func() suite {
		return &dbSuite{profile: dbProfile}
	}
	for _, p := range []string{"kv", "structs", "mixed", "merge", "iso", "list", "set", "zset", "crash", "mcrash", "backup", "mergekv", "kvbig", "optskv", "optsmixed", "sparse", "isoset"} {
		p := p
		suites["db-"+p] = func() suite { return &dbSuite{profile: p} }
	}
	_ = flag.CommandLine
}

// index 4 is the invalid expression; the matchers of the others are Nuts.Driver.DBSuite.rxMatch
var rxSet = []string{".*", "^b", "c$", "^$", "[", "^b$", "^ab$", "b", "ab", "^a.*c$"}

// oddLimit: limits other than a positive count and ScanNoLimit (-1)
func oddLimit(r *rand.Rand) int {
	return []int{-2, -3, 0, math.MinInt64, math.MinInt64 + 1, -1 << 31}[r.Intn(6)]
}

var errInjected = errors.New("injected write error")

func (s *dbSuite) hook(op, path string, off int64, data []byte) error {
	if op == "write" && s.inCommit && strings.HasSuffix(path, ".dat") && len(data) >= 32 {
		s.lastMarker = data[30] == 1 // the status field of the record being written: Committed = the transaction's last record
	}
	if op == "sync" && s.sfaultAt >= 0 && s.inCommit && strings.HasSuffix(path, ".dat") {
		s.sfaultCnt++
		if s.sfaultCnt-1 == s.sfaultAt {
			s.sfaultAt = -1
			if !s.lastMarker { // the sync of the marker record is never failed: that outcome is in doubt
				return errInjected
			}
		}
	}
	if op == "write" && s.faultAt >= 0 && strings.HasSuffix(path, ".dat") {
		s.faultCnt++
		if s.faultCnt-1 == s.faultAt {
			s.faultAt = -1
			return errInjected
		}
	}
	if op == "lock-req" {
		s.hookMu.Lock()
		s.lockIDs = append(s.lockIDs, uint64(off))
		s.hookMu.Unlock()
	}
	if s.capture && strings.HasPrefix(path, s.dir) && strings.HasSuffix(path, ".dat") {
		name := path[strings.LastIndex(path, "/")+1:]
		switch op {
		case "write":
			c := make([]byte, len(data))
			copy(c, data)
			s.pending[name] = append(s.pending[name], pendWrite{off, c})
		case "sync":
			// everything written to this file so far is now on stable storage (and so is its
			// directory entry, as the property grants)
			cur, ok := s.durable[name]
			if !ok {
				cur = []byte{}
			}
			if b, err := os.ReadFile(path); err == nil && len(b) > len(cur) {
				ext := make([]byte, len(b))
				copy(ext, cur)
				cur = ext
			}
			for _, w := range s.pending[name] {
				if int(w.off)+len(w.data) <= len(cur) {
					copy(cur[w.off:], w.data)
				}
			}
			s.pending[name] = nil
			s.durable[name] = cur
		}
	}
	if s.capture && strings.HasPrefix(path, s.dir) {
		switch op {
		case "write", "sync", "truncate", "remove":
			s.snapshot(op, path, off, data)
		case "create":
			if _, err := os.Stat(path); err != nil {
				s.snapshot(op, path, off, data)
			}
		}
	}
	return nil
}

// snapshot records the directory as a crash at this point would leave it (the mutation `op` has not
// happened yet), plus, for a write, variants in which a prefix of the data reached the file.
func (s *dbSuite) snapshot(op, path string, off int64, data []byte) {
	if len(s.images) > 400 {
		return
	}
	read := func() map[string][]byte {
		m := map[string][]byte{}
		ents, _ := os.ReadDir(s.dir)
		for _, e := range ents {
			if strings.HasSuffix(e.Name(), ".dat") {
				b, _ := os.ReadFile(s.dir + "/" + e.Name())
				m[e.Name()] = b
			}
		}
		return m
	}
	base := read()
	s.images = append(s.images, crashImage{event: op, files: base})
	if s.opt.SyncEnable {
		// power loss here: every file reverts to what was synced (unsynced writes dropped,
		// unsynced removals undone, never-synced files gone)
		m := map[string][]byte{}
		for n, b := range s.durable {
			c := make([]byte, len(b))
			copy(c, b)
			m[n] = c
		}
		s.images = append(s.images, crashImage{event: "pl-" + op, files: m})
	}
	if op == "write" && strings.HasSuffix(path, ".dat") && len(data) > 8 {
		name := path[strings.LastIndex(path, "/")+1:]
		for _, k := range []int{5, 21, 42, 42 + (len(data)-42)/2, len(data) - 1} {
			if k >= len(data) || k <= 0 {
				continue
			}
			m := map[string][]byte{}
			for n, b := range base {
				c := make([]byte, len(b))
				copy(c, b)
				m[n] = c
			}
			if f, ok := m[name]; ok && int(off)+k <= len(f) {
				copy(f[off:], data[:k])
				s.images = append(s.images, crashImage{event: "write-torn", files: m, torn: k})
			}
		}
	}
}

// startCapture initialises the power-loss shadow from the directory (everything before is synced).
func (s *dbSuite) startCapture() {
	s.capture = true
	s.durable = map[string][]byte{}
	s.pending = map[string][]pendWrite{}
	ents, _ := os.ReadDir(s.dir)
	for _, e := range ents {
		if strings.HasSuffix(e.Name(), ".dat") {
			b, _ := os.ReadFile(s.dir + "/" + e.Name())
			s.durable[e.Name()] = b
		}
	}
}

// endCapture takes the final images: a crash / a power loss right after the call returned.
func (s *dbSuite) endCapture() {
	if !s.capture {
		return
	}
	s.snapshot("end", s.dir+"/", 0, nil)
	s.capture = false
}

// openImage materialises a crash image in a fresh directory, lists its records, opens it with the
// options of the case and observes.
func (s *dbSuite) openImage(i int) string {
	if i < 0 || i >= len(s.images) {
		return "err no-such-image"
	}
	img := s.images[i]
	d, err := os.MkdirTemp(s.scratch, "img-")
	if err != nil {
		return "err"
	}
	defer os.RemoveAll(d)
	for n, b := range img.files {
		os.WriteFile(d+"/"+n, b, 0644)
	}
	saveDir, saveDB, saveHook, saveCap := s.dir, s.db, nutsdb.VerifFSHook, s.capture
	defer func() { s.dir, s.db, nutsdb.VerifFSHook, s.capture = saveDir, saveDB, saveHook, saveCap }()
	s.capture = false
	nutsdb.VerifFSHook = nil
	s.dir = d
	listing := s.listFiles()
	opt := s.opt
	opt.Dir = d
	res := "event=" + img.event + " files=" + listing
	var db *nutsdb.DB
	func() {
		defer func() {
			if r := recover(); r != nil {
				res += " open=panic"
				db = nil
			}
		}()
		var err error
		db, err = nutsdb.Open(opt)
		if err != nil {
			res += " open=err"
			db = nil
		} else {
			res += " open=ok"
		}
	}()
	if db != nil {
		s.db = db
		res += " obs=" + strings.TrimPrefix(s.observe(), "ok ")
		db.Close()
	}
	return "ok " + res
}

func (s *dbSuite) newCase(id int) {
	base := "/dev/shm"
	if _, err := os.Stat(base); err != nil {
		base = os.TempDir()
	}
	d, err := os.MkdirTemp(base, "nutsverif-db-")
	if err != nil {
		panic(err)
	}
	s.scratch = d
	s.dir = d + "/db"
	s.db, s.tx = nil, nil
	s.inTx, s.opened, s.pendObs = false, false, false
	s.usedKeys = map[string][][]byte{}
	s.nkeys = 0
	s.bigTx, s.bigLoad = 0, 3+id%9
	s.faultAt = -1
	s.sfaultAt, s.inCommit, s.lastMarker = -1, false, false
	s.bkN, s.bkPending, s.bkAfterMerge = 0, -1, false
	s.optRng = nil
	s.noList = (s.profile == "merge" || s.profile == "mcrash") && id%2 == 1
	s.again = nil
	s.pendOps = nil
	s.script = nil
	s.emptiedB, s.emptiedK = "", ""
	if strings.HasPrefix(s.profile, "opts") {
		g := 8
		if s.profile == "optskv" {
			g = 16
		}
		s.optCombo = id % g
		s.optRng = rand.New(rand.NewSource(harnessSeed*7919 + int64(id/g)))
		if s.optCombo == 0 || s.optNow == 0 {
			s.optNow = time.Now().Unix()
		}
	}
	s.openLine = ""
	s.interned = nil
	s.images, s.imgNext, s.armedGen, s.capture, s.armed, s.mergeNext = nil, 0, false, false, false, false
	s.mergedOnce = false
	nutsdb.VerifFSHook = s.hook
}

func (s *dbSuite) endCase() {
	if s.tx != nil {
		func() {
			defer func() { recover() }()
			s.tx.Rollback()
		}()
	}
	if s.db != nil {
		func() {
			defer func() { recover() }()
			s.db.Close()
		}()
	}
	nutsdb.VerifFSHook = nil
	os.RemoveAll(s.scratch)
}

// ---------------------------------------------------------------- rendering

func scoreQ(f float64) string { return strconv.FormatInt(int64(f*4), 10) }

func showNode(n *zset.SortedSetNode) string {
	if n == nil {
		return "nil"
	}
	return hx([]byte(n.Key())) + ":" + scoreQ(float64(n.Score())) + ":" + hx(n.Value)
}

func showNodes(ns []*zset.SortedSetNode) string {
	var p []string
	for _, n := range ns {
		p = append(p, showNode(n))
	}
	return "[" + strings.Join(p, ",") + "]"
}

func showEntry(e *nutsdb.Entry) string {
	if e == nil {
		return "nil"
	}
	return hx(e.Key) + "=" + hx(e.Value)
}

func showEntries(es nutsdb.Entries) string {
	var p []string
	for _, e := range es {
		p = append(p, showEntry(e))
	}
	return "[" + strings.Join(p, ",") + "]"
}

func sortedHx(bs [][]byte) string {
	c := make([][]byte, len(bs))
	copy(c, bs)
	sort.Slice(c, func(i, j int) bool { return string(c[i]) < string(c[j]) })
	return hxList(c)
}

var obsBuckets = []string{"a", "ab", "b", "", "a|b"}
var obsKeys = [][]byte{[]byte("a"), []byte("ab"), []byte("abc"), []byte("b"), []byte("ba"), []byte("k"), {0xff}}

// observe: full observation through a read-only transaction.
func (s *dbSuite) observe() string {
	tx, err := s.db.Begin(false)
	if err != nil {
		return "err"
	}
	defer tx.Rollback()
	var kv, ls, ss, zs []string
	for _, b := range obsBuckets {
		es, err := tx.GetAll(b)
		kv = append(kv, hx([]byte(b))+":"+errOr(err, showEntries(es)))
	}
	for _, b := range obsBuckets {
		for _, k := range obsKeys {
			if items, err := tx.LRange(b, k, 0, -1); err == nil {
				ls = append(ls, hx([]byte(b))+"/"+hx(k)+":"+hxList(items))
			} else if n, err2 := tx.LSize(b, k); err2 == nil && n == 0 {
				// present but empty list: LRange(0,-1) reports an error, LSize does not
				ls = append(ls, hx([]byte(b))+"/"+hx(k)+":[]")
			}
		}
	}
	for _, b := range obsBuckets {
		for _, k := range obsKeys {
			if ok, err := tx.SHasKey(b, k); err == nil && ok {
				items, _ := tx.SMembers(b, k)
				ss = append(ss, hx([]byte(b))+"/"+hx(k)+":"+sortedHx(items))
			}
		}
	}
	for _, b := range obsBuckets {
		if ns, err := tx.ZRangeByRank(b, 1, -1); err == nil {
			// ZRangeByRank(1,-1) on an empty set: sanitize gives (1,1) → empty
			zs = append(zs, hx([]byte(b))+":"+showNodes(ns))
		}
	}
	return "ok kv{" + strings.Join(kv, ";") + "} list{" + strings.Join(ls, ";") + "} set{" + strings.Join(ss, ";") + "} zset{" + strings.Join(zs, ";") + "}"
}

// listFiles renders every record of every data file: fid{off:flag:ds:status:txid:ts:ttl:bucket/key=value,...}
func (s *dbSuite) listFiles() string {
	ents, _ := os.ReadDir(s.dir)
	var ids []int
	for _, e := range ents {
		if strings.HasSuffix(e.Name(), ".dat") {
			n, _ := strconv.Atoi(strings.TrimSuffix(e.Name(), ".dat"))
			ids = append(ids, n)
		}
	}
	sort.Ints(ids)
	var out []string
	for _, id := range ids {
		path := fmt.Sprintf("%s/%d.dat", s.dir, id)
		old := nutsdb.VerifFSHook
		nutsdb.VerifFSHook = nil
		df, err := nutsdb.NewDataFile(path, s.opt.SegmentSize, nutsdb.FileIO)
		nutsdb.VerifFSHook = old
		if err != nil {
			out = append(out, fmt.Sprintf("%d:openerr", id))
			continue
		}
		off := 0
		var recs []string
		for int64(off) < s.opt.SegmentSize {
			e, err := df.ReadAt(off)
			if err != nil {
				if err.Error() != "EOF" {
					recs = append(recs, fmt.Sprintf("%d:readerr", off))
				}
				break
			}
			if e == nil {
				break
			}
			b, k, v, ts, ttl, flag, status, ds, txid, _ := e.VerifFields()
			recs = append(recs, fmt.Sprintf("%d:%d:%d:%d:%d:%d:%d:%s/%s=%s", off, flag, ds, status, txid, ts, ttl, hx(b), hx(k), hx(v)))
			off += int(e.Size())
		}
		nutsdb.VerifFSHook = nil
		df.Close()
		nutsdb.VerifFSHook = old
		out = append(out, fmt.Sprintf("%d{%s}", id, strings.Join(recs, ",")))
	}
	return strings.Join(out, ";")
}

// ---------------------------------------------------------------- execution

func (s *dbSuite) exec(line string) string {
	f := strings.Fields(line)
	B := func(i int) string { return string(unhx(f[i])) }
	K := func(i int) []byte { return s.intern(unhx(f[i])) }
	I := func(i int) int { return atoi(f[i]) }
	U := func(i int) uint64 { n, _ := strconv.ParseUint(f[i], 10, 64); return n }
	tx := s.tx
	if tx == nil && f[0] != "open" && f[0] != "begin" && f[0] != "close" && f[0] != "merge" && f[0] != "obs" && f[0] != "files" && f[0] != "capture" && f[0] != "image" && f[0] != "concmerge" {
		// calls without a transaction are made on a finished one
		tx = s.deadTx()
	}
	switch f[0] {
	case "open":
		opt := nutsdb.DefaultOptions
		opt.Dir = s.dir
		opt.EntryIdxMode = nutsdb.EntryIdxMode(I(1))
		opt.RWMode = nutsdb.RWMode(I(2))
		opt.StartFileLoadingMode = nutsdb.RWMode(I(3))
		opt.SyncEnable = I(4) == 1
		opt.SegmentSize = int64(I(5))
		s.opt = opt
		db, err := nutsdb.Open(opt)
		if err != nil {
			return "err"
		}
		s.db = db
		return "ok"
	case "begin":
		if s.db == nil {
			return "err"
		}
		t, err := s.db.Begin(f[1] == "w")
		if err != nil {
			return "err"
		}
		s.tx = t
		return "ok " + strconv.FormatUint(t.VerifID(), 10)
	case "fault":
		s.faultAt, s.faultCnt = atoi(f[1]), 0
		return "ok"
	case "sfault":
		s.sfaultAt, s.sfaultCnt = atoi(f[1]), 0
		return "ok"
	case "commit":
		if s.tx == nil {
			return "err"
		}
		var res string
		s.inCommit = true
		defer func() { s.faultAt, s.sfaultAt, s.inCommit = -1, -1, false }()
		if s.armed {
			s.armed = false
			s.startCapture()
		}
		defer s.endCapture()
		func() {
			defer func() {
				if r := recover(); r != nil {
					res = "panic"
					// leave the lock as Commit left it: a panicking Commit still holds it
					func() { defer func() { recover() }(); s.tx.Rollback() }()
				}
			}()
			if err := s.tx.Commit(); err != nil {
				s.tx.Rollback() // what db.managed does
				res = "err"
			} else {
				res = "ok"
			}
		}()
		return res
	case "rollback":
		if s.tx == nil {
			return "err"
		}
		return errOr(s.tx.Rollback(), "")
	case "close":
		if s.db == nil {
			return "err"
		}
		err := s.db.Close()
		if err == nil {
			s.db = nil
		}
		return errOr(err, "")
	case "backup":
		// DB.Backup into a fresh directory; the copy is opened later by `backupobs <n>`
		if s.db == nil {
			return "err"
		}
		dst := fmt.Sprintf("%s/backup-%s", s.scratch, f[1])
		os.RemoveAll(dst)
		res := "ok"
		func() {
			defer func() {
				if r := recover(); r != nil {
					res = "panic"
				}
			}()
			if err := s.db.Backup(dst); err != nil {
				res = "err"
			}
		}()
		return res
	case "backupobs":
		dst := fmt.Sprintf("%s/backup-%s", s.scratch, f[1])
		opt := s.opt
		opt.Dir = dst
		res := "open=err"
		func() {
			defer func() {
				if r := recover(); r != nil {
					res = "open=panic"
				}
			}()
			db2, err := nutsdb.Open(opt)
			if err != nil {
				return
			}
			tmp := &dbSuite{db: db2, dir: dst, opt: opt}
			res = "open=ok obs=" + strings.TrimPrefix(tmp.observe(), "ok ")
			db2.Close()
		}()
		return "ok " + res
	case "merge":
		if s.db == nil {
			return "err"
		}
		s.hookMu.Lock()
		s.lockIDs = nil
		s.hookMu.Unlock()
		res := "ok"
		if s.armed {
			s.armed = false
			s.startCapture()
		}
		func() {
			defer s.endCapture()
			defer func() {
				if r := recover(); r != nil {
					res = "panic"
				}
			}()
			if err := s.db.Merge(); err != nil {
				res = "err"
			}
		}()
		var ids []string
		for _, id := range s.lockIDs {
			ids = append(ids, hx([]byte(strconv.FormatUint(id, 10))))
		}
		return res + " txids=[" + strings.Join(ids, ",") + "]"
	case "obs":
		if s.db == nil {
			return "err"
		}
		return s.observe()
	case "files":
		return "ok " + s.listFiles()
	case "concmerge":
		return "ok"
	case "capture":
		s.armed = true
		s.images = nil
		return "ok"
	case "image":
		return s.openImage(I(1))
	// ---- KV
	case "put":
		return errOr(tx.PutWithTimestamp(B(1), K(2), K(3), uint32(U(4)), U(5)), "")
	case "del":
		return errOr(tx.Delete(B(1), K(2)), "")
	case "get":
		e, err := tx.Get(B(1), K(2))
		return errOr(err, showEntry(e))
	case "getmeta":
		e, err := tx.Get(B(1), K(2))
		if err != nil || e == nil {
			return errOr(err, "nil")
		}
		_, _, _, ts, ttl, _, _, _, _, _ := e.VerifFields()
		return fmt.Sprintf("ok %d/%d", ts, ttl)
	case "getall":
		es, err := tx.GetAll(B(1))
		return errOr(err, showEntries(es))
	case "range":
		es, err := tx.RangeScan(B(1), K(2), K(3))
		return errOr(err, showEntries(es))
	case "prefix":
		es, _, err := tx.PrefixScan(B(1), K(2), I(3), I(4))
		return errOr(err, showEntries(es))
	case "psearch":
		es, _, err := tx.PrefixSearchScan(B(1), K(2), rxSet[I(3)], I(4), I(5))
		return errOr(err, showEntries(es))
	// ---- lists
	case "rpush":
		return errOr(tx.RPush(B(1), K(2), unhxList(f[3])...), "")
	case "lpush":
		return errOr(tx.LPush(B(1), K(2), unhxList(f[3])...), "")
	case "lpop":
		v, err := tx.LPop(B(1), K(2))
		return errOr(err, hx(v))
	case "rpop":
		v, err := tx.RPop(B(1), K(2))
		return errOr(err, hx(v))
	case "lpeek":
		v, err := tx.LPeek(B(1), K(2))
		return errOr(err, hx(v))
	case "rpeek":
		v, err := tx.RPeek(B(1), K(2))
		return errOr(err, hx(v))
	case "lsize":
		n, err := tx.LSize(B(1), K(2))
		return errOr(err, fmt.Sprint(n))
	case "lrange":
		vs, err := tx.LRange(B(1), K(2), I(3), I(4))
		return errOr(err, hxList(vs))
	case "lrem":
		n, err := tx.LRem(B(1), K(2), I(3), K(4))
		return errOr(err, fmt.Sprint(n))
	case "lset":
		return errOr(tx.LSet(B(1), K(2), I(3), K(4)), "")
	case "ltrim":
		return errOr(tx.LTrim(B(1), K(2), I(3), I(4)), "")
	// ---- sets
	case "sadd":
		return errOr(tx.SAdd(B(1), K(2), unhxList(f[3])...), "")
	case "srem":
		return errOr(tx.SRem(B(1), K(2), unhxList(f[3])...), "")
	case "spop":
		v, err := tx.SPop(B(1), K(2))
		return errOr(err, hx(v))
	case "sismember":
		ok, err := tx.SIsMember(B(1), K(2), K(3))
		return errOr(err, fmt.Sprint(ok))
	case "saremembers":
		ok, err := tx.SAreMembers(B(1), K(2), unhxList(f[3])...)
		return errOr(err, fmt.Sprint(ok))
	case "smembers":
		vs, err := tx.SMembers(B(1), K(2))
		return errOr(err, sortedHx(vs))
	case "scard":
		n, err := tx.SCard(B(1), K(2))
		return errOr(err, fmt.Sprint(n))
	case "shaskey":
		ok, err := tx.SHasKey(B(1), K(2))
		return errOr(err, fmt.Sprint(ok))
	case "sdiff1":
		vs, err := tx.SDiffByOneBucket(B(1), K(2), K(3))
		return errOr(err, sortedHx(vs))
	case "sunion1":
		vs, err := tx.SUnionByOneBucket(B(1), K(2), K(3))
		return errOr(err, sortedHx(vs))
	case "sdiff2":
		vs, err := tx.SDiffByTwoBuckets(B(1), K(2), B(3), K(4))
		return errOr(err, sortedHx(vs))
	case "sunion2":
		vs, err := tx.SUnionByTwoBuckets(B(1), K(2), B(3), K(4))
		return errOr(err, sortedHx(vs))
	case "smove1":
		ok, err := tx.SMoveByOneBucket(B(1), K(2), K(3), K(4))
		return errOr(err, fmt.Sprint(ok))
	case "smove2":
		ok, err := tx.SMoveByTwoBuckets(B(1), K(2), B(3), K(4), K(5))
		return errOr(err, fmt.Sprint(ok))
	// ---- sorted sets
	case "zadd":
		return errOr(tx.ZAdd(B(1), K(2), float64(I(3))/4, K(5)), "")
	case "zrem":
		return errOr(tx.ZRem(B(1), B(2)), "")
	case "zremrank":
		return errOr(tx.ZRemRangeByRank(B(1), I(2), I(3)), "")
	case "zpopmax":
		n, err := tx.ZPopMax(B(1))
		return errOr(err, showNode(n))
	case "zpopmin":
		n, err := tx.ZPopMin(B(1))
		return errOr(err, showNode(n))
	case "zpeekmax":
		n, err := tx.ZPeekMax(B(1))
		return errOr(err, showNode(n))
	case "zpeekmin":
		n, err := tx.ZPeekMin(B(1))
		return errOr(err, showNode(n))
	case "zmembers":
		m, err := tx.ZMembers(B(1))
		if err != nil {
			return "err"
		}
		var ns []*zset.SortedSetNode
		for _, n := range m {
			ns = append(ns, n)
		}
		sort.Slice(ns, func(i, j int) bool { return ns[i].Key() < ns[j].Key() })
		return "ok " + showNodes(ns)
	case "zcard":
		n, err := tx.ZCard(B(1))
		return errOr(err, fmt.Sprint(n))
	case "zrangebyscore", "zcount":
		var opts *zset.GetByScoreRangeOptions
		if I(4) == 1 {
			opts = &zset.GetByScoreRangeOptions{Limit: I(5), ExcludeStart: I(6) == 1, ExcludeEnd: I(7) == 1}
		}
		if f[0] == "zcount" {
			n, err := tx.ZCount(B(1), float64(I(2))/4, float64(I(3))/4, opts)
			return errOr(err, fmt.Sprint(n))
		}
		ns, err := tx.ZRangeByScore(B(1), float64(I(2))/4, float64(I(3))/4, opts)
		return errOr(err, showNodes(ns))
	case "zrangebyrank":
		ns, err := tx.ZRangeByRank(B(1), I(2), I(3))
		return errOr(err, showNodes(ns))
	case "zrank":
		n, err := tx.ZRank(B(1), K(2))
		return errOr(err, fmt.Sprint(n))
	case "zrevrank":
		n, err := tx.ZRevRank(B(1), K(2))
		return errOr(err, fmt.Sprint(n))
	case "zscore":
		sc, err := tx.ZScore(B(1), K(2))
		return errOr(err, scoreQ(sc))
	case "zgetbykey":
		n, err := tx.ZGetByKey(B(1), K(2))
		if err != nil {
			return "err"
		}
		return "ok " + showNode(n)
	}
	return "bad-op"
}

var deadTxOnce *nutsdb.Tx

// deadTx returns a finished transaction (calls on it must return errors).
func (s *dbSuite) deadTx() *nutsdb.Tx {
	if s.db != nil {
		if t, err := s.db.Begin(false); err == nil {
			t.Rollback()
			return t
		}
	}
	if deadTxOnce == nil {
		d, _ := os.MkdirTemp("", "nutsverif-dead-")
		opt := nutsdb.DefaultOptions
		opt.Dir = d
		db, _ := nutsdb.Open(opt)
		t, _ := db.Begin(false)
		t.Rollback()
		db.Close()
		os.RemoveAll(d)
		deadTxOnce = t
	}
	return deadTxOnce
}

// ---------------------------------------------------------------- generation

func (s *dbSuite) now() int64 {
	if s.optRng != nil {
		return s.optNow
	}
	return time.Now().Unix()
}

func (s *dbSuite) genKey(r *rand.Rand, b string) []byte {
	// mostly keys already used in this bucket, sometimes a new one from a family with shared prefixes
	reuse := 6
	if s.profile == "mcrash" || s.profile == "merge" {
		reuse = 8
	}
	if ks := s.usedKeys[b]; len(ks) > 0 && r.Intn(10) < reuse {
		return ks[r.Intn(len(ks))]
	}
	var k []byte
	switch r.Intn(8) {
	case 0, 1:
		k = obsKeys[r.Intn(len(obsKeys))]
	case 2:
		k = []byte(fmt.Sprintf("ab%c", 'a'+r.Intn(6)))
	case 3:
		k = []byte(fmt.Sprintf("a%c%c", 'a'+r.Intn(3), 'a'+r.Intn(3)))
	case 4:
		// keys around the 0xff boundary (prefix upper bounds, carries)
		k = [][]byte{{0x61, 0xff}, {0x61, 0xff, 0x62}, {0xff}, {0xff, 0xff}, {0x61, 0xfe}, {0x61, 0xff, 0xff}, {0x62}, {0x61, 0xff, 0x00}}[r.Intn(8)]
	default:
		s.nkeys++
		k = []byte(fmt.Sprintf("k%02d", r.Intn(90)))
	}
	s.usedKeys[b] = append(s.usedKeys[b], k)
	return k
}

func (s *dbSuite) genBucket(r *rand.Rand) string {
	if s.profile == "iso" || s.profile == "isoset" {
		return obsBuckets[r.Intn(len(obsBuckets))]
	}
	return obsBuckets[r.Intn(3)]
}

// kindBucket concentrates each structure on two bucket names (overlapping between structures,
// so same-named buckets of different structures occur), with an occasional stray.
func (s *dbSuite) kindBucket(r *rand.Rand, kind string) string {
	if s.profile == "sparse" {
		// composite keys bucket++key are ambiguous when one bucket name is a prefix of another (a recorded
		// finding): mostly unrelated names, now and then a related one
		if r.Intn(25) == 0 {
			return "ab"
		}
		return []string{"a", "a", "a", "b", "c"}[r.Intn(5)]
	}
	if s.profile == "iso" || s.profile == "isoset" || r.Intn(12) == 0 {
		return s.genBucket(r)
	}
	m := map[string][]string{"kv": {"a", "ab"}, "list": {"a", "b"}, "set": {"b", "ab"}, "zset": {"ab", "a"}}
	bs := m[kind]
	if r.Intn(4) == 0 {
		return bs[1]
	}
	return bs[0]
}

func (s *dbSuite) genSmallKey(r *rand.Rand) []byte { return obsKeys[r.Intn(4)] }

func (s *dbSuite) genTTL(r *rand.Rand) (ttl uint32, ts uint64) {
	now := uint64(s.now())
	switch r.Intn(7) {
	case 6:
		return 1000, now + 3000 // written "in the future" (another machine's clock): live
	case 0:
		return 1000, now - 5000 // expired
	case 1:
		return 100000, now - 100 // live with ttl
	case 2:
		return 1, now - 2000 // expired
	default:
		return 0, now
	}
}

func (s *dbSuite) genValue(r *rand.Rand) []byte {
	if s.profile == "backup" && r.Intn(6) == 0 {
		// long runs of zero bytes (a sparse-looking value), with and without data after them
		v := make([]byte, 9000+r.Intn(3000))
		if r.Intn(2) == 0 {
			v[len(v)-1] = 7
		}
		return v
	}
	switch r.Intn(12) {
	case 0:
		return []byte{}
	case 1:
		return []byte(strings.Repeat("v", 20+r.Intn(60)))
	case 2:
		if s.profile == "mixed" || s.profile == "merge" || s.profile == "crash" {
			return []byte(strings.Repeat("B", 600)) // larger than any segment: commit fails
		}
		return []byte("w")
	default:
		return pickVal(r)
	}
}

func (s *dbSuite) gen(r *rand.Rand, step int) string {
	if s.optRng != nil {
		r = s.optRng
	}
	if len(s.script) > 0 {
		l := s.script[0]
		s.script = s.script[1:]
		return l
	}
	if !s.opened {
		s.opened = true
		mode := 0
		if s.profile == "kv" || s.profile == "iso" {
			mode = r.Intn(2)
		}
		if (s.profile == "crash" || s.profile == "mixed" || s.profile == "merge") && r.Intn(4) == 0 {
			mode = 1 // key-only index: the generator then restricts itself to key/value operations
		}
		seg := []int{64, 100, 128, 200, 256, 512}[r.Intn(6)]
		if s.profile == "kv" && r.Intn(3) == 0 {
			seg = 96 // = 2 records of 48 bytes exactly: exactly-full segments
		}
		if s.profile == "sparse" {
			mode = 2
			seg = []int{128, 160, 200, 256, 512}[r.Intn(5)]
		}
		if s.profile == "kvbig" {
			// large buckets: B+ trees of two and three levels, long scans, paging far into a bucket
			mode = r.Intn(2)
			seg = []int{256, 512, 1024, 4096}[r.Intn(4)]
		}
		if s.optRng != nil && s.openLine == "" {
			// same script, every combination of RWMode x StartFileLoadingMode x SyncEnable (x RAM index mode)
			c := s.optCombo
			s.openLine = fmt.Sprintf("open %d %d %d %d %d", (c>>3)&1, c&1, (c>>1)&1, (c>>2)&1, seg)
		}
		if s.openLine == "" {
			s.openLine = fmt.Sprintf("open %d %d %d %d %d", mode, r.Intn(2), r.Intn(2), r.Intn(2), seg)
		}
		return s.openLine
	}
	if s.db == nil {
		return "" // Open failed: nothing more to do in this case
	}
	if s.pendObs {
		s.pendObs = false
		return fmt.Sprintf("obs %d", s.now())
	}
	if s.imgNext < len(s.images) {
		s.imgNext++
		return fmt.Sprintf("image %d %d", s.imgNext-1, s.now())
	}
	if !s.inTx {
		x := r.Intn(40)
		if s.optRng != nil && x < 4 {
			x = 0 // options matter most around Close/Open: reopen often
		}
		if s.profile == "isoset" {
			x = r.Intn(14) // reopen and merge often
		}
		if s.mergeNext {
			s.mergeNext = false
			x = 1
		}
		switch {
		case x == 0 && s.db != nil:
			// clean reopen
			s.pendObs = false
			s.opened = false
			s.mergedOnce = false
			return "close"
		case (x == 1 || ((x == 3 || x == 4 || x == 5) && s.profile == "mcrash") || ((x == 3 || x == 4) && s.profile == "merge")) && (s.profile == "merge" || s.profile == "mcrash" || s.profile == "isoset"):
			if s.profile == "mcrash" && !s.armedGen {
				s.armedGen = true
				s.mergeNext = true
				return "capture"
			}
			s.armedGen = false
			s.imgNext = 0
			s.pendObs = true
			s.bkAfterMerge = true // a backup right after a Merge, looked at a few transactions later
			s.mergedOnce = true
			return fmt.Sprintf("merge %d", s.now())
		case x == 7 && (s.profile == "crash" || s.profile == "mixed" || s.profile == "kv") && s.optRng == nil && s.openLine != "" && s.bkPending < 0 && !s.armedGen:
			// a burst without pauses: a committed transaction, a clean reopen, at once a transaction that
			// fails at its second record (larger than any segment), a reopen, a look. Whatever the library
			// derives from the clock (transaction ids) is the same on both sides of the reopen when the
			// burst fits into one tick.
			b := s.genBucket(r)
			hb := hx([]byte(b))
			k1, k2, k3 := s.genKey(r, b), s.genKey(r, b), s.genKey(r, b)
			now := s.now()
			s.script = []string{
				fmt.Sprintf("put %s %s %s 0 %d", hb, hx(k1), hx(pickVal(r)), now),
				"commit", "close", s.openLine, "begin w",
				fmt.Sprintf("put %s %s %s 0 %d", hb, hx(k2), hx(pickVal(r)), now),
				fmt.Sprintf("put %s %s %s 0 %d", hb, hx(k3), hx([]byte(strings.Repeat("B", 600))), now),
				"commit", fmt.Sprintf("obs %d", now), "close", s.openLine, fmt.Sprintf("obs %d", now),
			}
			return "begin w"
		case x == 8 && (s.profile == "crash" || s.profile == "mixed") && s.optRng == nil && s.openLine != "" && s.bkPending < 0 && !s.armedGen && s.opt.SyncEnable:
			// a Sync that fails after the write of a record short of the last: Commit returns the error, nothing
			// of the transaction is visible, in the process or after the reopen that follows at once
			b := s.genBucket(r)
			hb := hx([]byte(b))
			now := s.now()
			lines := []string{}
			n := 2 + r.Intn(3)
			for i := 0; i < n; i++ {
				if s.opt.EntryIdxMode == nutsdb.HintKeyValAndRAMIdxMode && r.Intn(3) == 0 {
					lines = append(lines, fmt.Sprintf("sadd %s %s %s %d", hb, hx(obsKeys[r.Intn(2)]), hxList([][]byte{pickVal(r)}), now))
				} else {
					lines = append(lines, fmt.Sprintf("put %s %s %s 0 %d", hb, hx(s.genKey(r, b)), hx(pickVal(r)), now))
				}
			}
			lines = append(lines, fmt.Sprintf("sfault %d", r.Intn(n-1)), "commit", fmt.Sprintf("obs %d", now), "close", s.openLine, fmt.Sprintf("obs %d", now))
			s.script = lines
			return "begin w"
		case x == 2:
			// a call on a finished transaction
			return s.genOp(r, true)
		case (x == 6 || (s.bkAfterMerge && x < 20)) && (s.profile == "mixed" || s.profile == "merge" || s.profile == "kv") && s.bkPending < 0:
			s.bkAfterMerge = false
			s.bkN++
			s.bkPending = 2 + r.Intn(4)
			return fmt.Sprintf("backup %d", s.bkN)
		}
		if s.bkPending == 0 {
			s.bkPending = -1
			return fmt.Sprintf("backupobs %d %d", s.bkN, s.now())
		}
		if s.bkPending > 0 {
			s.bkPending--
		}
		s.inTx = true
		s.txW = r.Intn(5) != 0
		s.txLeft = 1 + r.Intn(5)
		if s.profile == "kvbig" {
			s.bigTx++
			if s.bigTx <= s.bigLoad {
				s.txW = true
				s.txLeft = 5 + r.Intn(4)
			} else {
				s.txW = r.Intn(6) == 0
				s.txLeft = 3 + r.Intn(5)
			}
		}
		if s.txW {
			return "begin w"
		}
		return "begin r"
	}
	if len(s.pendOps) > 0 {
		l := s.pendOps[0]
		s.pendOps = s.pendOps[1:]
		return l
	}
	if s.txLeft <= 0 {
		if ((s.profile == "crash" && r.Intn(2) == 0) || (s.profile == "mcrash" && s.mergedOnce && r.Intn(3) == 0)) && s.txW && !s.armedGen {
			s.armedGen = true
			s.images = nil
			return "capture"
		}
		if (s.profile == "mixed" || s.profile == "kv" || s.profile == "crash") && s.txW && !s.armedGen && !s.faultGen && r.Intn(7) == 0 {
			// the next commit's k-th record write fails (nothing reaches the file)
			s.faultGen = true
			return fmt.Sprintf("fault %d", r.Intn(4))
		}
		s.faultGen = false
		s.inTx = false
		s.pendObs = true
		if !s.armedGen && r.Intn(8) == 0 {
			return "rollback"
		}
		if !s.armedGen {
			s.images = nil
		}
		s.armedGen = false
		s.imgNext = 0
		return "commit"
	}
	s.txLeft--
	return s.genOp(r, false)
}

func (s *dbSuite) genOp(r *rand.Rand, dead bool) string {
	b := s.genBucket(r)
	hb := hx([]byte(b))
	now := s.now()
	kind := s.profile
	if kind == "kvbig" {
		return s.genBigOp(r)
	}
	if kind == "backup" {
		kind = "kv"
	} else if kind == "mergekv" {
		// Merge running concurrently: key/value only
		kind = "kv"
	} else if kind == "mcrash" {
		// mostly overwrites and deletes of few keys: segments that are mostly garbage
		kind = []string{"kv", "kv", "kv", "kv", "kv", "kv", "set", "zset", "list"}[r.Intn(9)]
	} else if kind == "optskv" || kind == "sparse" {
		kind = "kv"
	} else if kind == "mixed" || kind == "merge" || kind == "iso" || kind == "crash" || kind == "optsmixed" {
		kind = []string{"kv", "kv", "list", "set", "zset"}[r.Intn(5)]
		if s.opt.EntryIdxMode != nutsdb.HintKeyValAndRAMIdxMode {
			kind = "kv"
		}
	} else if kind == "structs" {
		kind = []string{"list", "set", "zset"}[r.Intn(3)]
	}
	if s.noList && kind == "list" {
		kind = []string{"set", "zset", "zset"}[r.Intn(3)]
	}
	if s.profile == "isoset" {
		// sets alone, in every bucket name, under keys and members whose bucket+key+member concatenations
		// coincide across buckets, with merges and reopens (bucket isolation through Merge and recovery)
		kind = "set"
	}
	if s.profile == "list" || s.profile == "set" || s.profile == "zset" {
		kind = s.profile
		if r.Intn(15) == 0 {
			kind = []string{"kv", "list", "set", "zset"}[r.Intn(4)]
		}
	}
	b = s.kindBucket(r, kind)
	hb = hx([]byte(b))
	switch kind {
	case "kv":
		if s.profile == "iso" && r.Intn(8) == 0 {
			// two writes of one transaction to two buckets whose bucket+key concatenations coincide
			pairs := [][2][2]string{{{"a", "ba"}, {"ab", "a"}}, {{"", "ab"}, {"a", "b"}}, {{"", "ba"}, {"b", "a"}}}
			p := pairs[r.Intn(len(pairs))]
			if r.Intn(2) == 0 {
				p[0], p[1] = p[1], p[0]
			}
			ttl, ts := s.genTTL(r)
			for _, q := range p {
				s.usedKeys[q[0]] = append(s.usedKeys[q[0]], []byte(q[1]))
			}
			second := fmt.Sprintf("put %s %s %s %d %d", hx([]byte(p[1][0])), hx([]byte(p[1][1])), hx(s.genValue(r)), ttl, ts)
			if r.Intn(4) == 0 {
				second = fmt.Sprintf("del %s %s %d", hx([]byte(p[1][0])), hx([]byte(p[1][1])), now)
			}
			s.pendOps = append(s.pendOps, second)
			return fmt.Sprintf("put %s %s %s %d %d", hx([]byte(p[0][0])), hx([]byte(p[0][1])), hx(s.genValue(r)), ttl, ts)
		}
		k := s.genKey(r, b)
		switch r.Intn(14) {
		case 0, 1, 2, 3, 4:
			ttl, ts := s.genTTL(r)
			return s.orAgain(r, "put", fmt.Sprintf("put %s %s %s %d %d", hb, hx(k), hx(s.genValue(r)), ttl, ts))
		case 5, 6:
			return fmt.Sprintf("del %s %s %d", hb, hx(k), now)
		case 7, 8:
			if r.Intn(4) == 0 && s.profile != "sparse" && s.profile != "mergekv" { // not under a concurrent Merge: D-MERGE-NOLOCK is decided on get / scans
				return fmt.Sprintf("getmeta %s %s %d", hb, hx(k), now) // the timestamp and TTL the read reports
			}
			return fmt.Sprintf("get %s %s %d", hb, hx(k), now)
		case 9:
			return fmt.Sprintf("getall %s %d", hb, now)
		case 10:
			k2 := s.genKey(r, b)
			return fmt.Sprintf("range %s %s %s %d", hb, hx(k), hx(k2), now)
		case 11, 12:
			pre := k
			if len(pre) > 0 && r.Intn(2) == 0 {
				pre = pre[:r.Intn(len(pre))]
			}
			if r.Intn(8) == 0 {
				pre = [][]byte{{0x61, 0xff}, {0xff}, {0x61}, {}}[r.Intn(4)]
			}
			n := len(s.usedKeys[b])
			lim := r.Intn(n+2) + 1
			switch r.Intn(6) {
			case 0, 1:
				lim = -1
			case 2:
				lim = 1 + r.Intn(3) // a short page
			case 3, 4:
				lim = n + 5 + r.Intn(20) // more than the bucket can hold
			}
			if r.Intn(25) == 0 && s.profile != "sparse" { // sparse-mode paging is D-SPARSE-PAGE; its model is not kept for odd limits
				lim = oddLimit(r)
			}
			// offsets: mostly inside the block (the number of distinct live keys is far below the number of draws)
			off := r.Intn(n + 2)
			switch r.Intn(4) {
			case 0, 1:
				off = 0
			case 2:
				off = r.Intn(4)
			}
			return fmt.Sprintf("prefix %s %s %d %d %d", hb, hx(pre), off, lim, now)
		default:
			pre := k
			if len(pre) > 0 {
				pre = pre[:r.Intn(len(pre))]
			}
			lim := r.Intn(6) + 1
			switch r.Intn(6) {
			case 0, 1:
				lim = -1
			case 2:
				lim = len(s.usedKeys[b]) + 5 + r.Intn(20) // more than the bucket can hold
			}
			if r.Intn(25) == 0 && s.profile != "sparse" { // sparse-mode paging is D-SPARSE-PAGE; its model is not kept for odd limits
				lim = oddLimit(r)
			}
			return fmt.Sprintf("psearch %s %s %d %d %d %d", hb, hx(pre), r.Intn(len(rxSet)), 0, lim, now)
		}
	case "list":
		k := obsKeys[r.Intn(2)]
		if r.Intn(20) == 0 {
			k = []byte("a|b")
		}
		if r.Intn(15) == 0 {
			k = s.genSmallKey(r)
		}
		n := 0
		s.peek(dead, func(t *nutsdb.Tx) { n, _ = t.LSize(b, k) })
		switch r.Intn(16) {
		case 0, 1, 2:
			return fmt.Sprintf("rpush %s %s %s %d", hb, hx(k), hxList(s.genVals(r)), now)
		case 3, 4:
			return fmt.Sprintf("lpush %s %s %s %d", hb, hx(k), hxList(s.genVals(r)), now)
		case 5:
			return fmt.Sprintf("lpop %s %s %d", hb, hx(k), now)
		case 6:
			return fmt.Sprintf("rpop %s %s %d", hb, hx(k), now)
		case 7:
			return []string{"lpeek", "rpeek", "lsize"}[r.Intn(3)] + " " + hb + " " + hx(k)
		case 8, 9:
			return fmt.Sprintf("lrange %s %s %d %d", hb, hx(k), boundaryInt(r, n), boundaryInt(r, n))
		case 10, 11:
			return fmt.Sprintf("lrem %s %s %d %s %d", hb, hx(k), boundaryInt(r, n), hx(pickVal(r)), now)
		case 12, 13:
			return fmt.Sprintf("lset %s %s %d %s %d", hb, hx(k), boundaryInt(r, n), hx(pickVal(r)), now)
		default:
			return fmt.Sprintf("ltrim %s %s %d %d %d", hb, hx(k), boundaryInt(r, n), boundaryInt(r, n), now)
		}
	case "set":
		k := obsKeys[r.Intn(3)]
		k2 := obsKeys[r.Intn(3)]
		if s.profile == "isoset" {
			ks := [][]byte{[]byte("a"), []byte("ab"), []byte("b"), []byte("ba"), {}, []byte("|b")}
			k = ks[r.Intn(len(ks))]
			k2 = ks[r.Intn(len(ks))]
		}
		b2 := s.kindBucket(r, "set")
		if s.emptiedK != "" && !dead && r.Intn(2) == 0 {
			eb, ek := hx([]byte(s.emptiedB)), hx([]byte(s.emptiedK))
			if r.Intn(3) == 0 {
				s.emptiedB, s.emptiedK = "", ""
			}
			switch r.Intn(6) {
			case 0, 1, 2:
				return fmt.Sprintf("spop %s %s %d", eb, ek, now)
			case 3:
				return []string{"smembers", "scard", "shaskey"}[r.Intn(3)] + " " + eb + " " + ek
			case 4:
				return fmt.Sprintf("sunion1 %s %s %s", eb, ek, hx(k2))
			default:
				return fmt.Sprintf("sdiff1 %s %s %s", eb, hx(k2), ek)
			}
		}
		if !dead && s.txW && r.Intn(14) == 0 {
			// remove every member of a set in one call
			var ms [][]byte
			s.peek(dead, func(t *nutsdb.Tx) {
				if l, err := t.SMembers(b, k); err == nil {
					ms = l
				}
			})
			if len(ms) > 0 && len(ms) <= 6 {
				s.emptiedB, s.emptiedK = b, string(k)
				return fmt.Sprintf("srem %s %s %s %d", hb, hx(k), hxList(ms), now)
			}
		}
		switch r.Intn(18) {
		case 0, 1, 2, 3:
			return fmt.Sprintf("sadd %s %s %s %d", hb, hx(k), hxList(s.genVals(r)), now)
		case 4, 5:
			return fmt.Sprintf("srem %s %s %s %d", hb, hx(k), hxList(s.genVals(r)), now)
		case 6, 7:
			return fmt.Sprintf("spop %s %s %d", hb, hx(k), now)
		case 8:
			return fmt.Sprintf("sismember %s %s %s", hb, hx(k), hx(pickVal(r)))
		case 9:
			return fmt.Sprintf("saremembers %s %s %s", hb, hx(k), hxList(s.genVals(r)))
		case 10:
			return []string{"smembers", "scard", "shaskey"}[r.Intn(3)] + " " + hb + " " + hx(k)
		case 11:
			return fmt.Sprintf("sdiff1 %s %s %s", hb, hx(k), hx(k2))
		case 12:
			return fmt.Sprintf("sunion1 %s %s %s", hb, hx(k), hx(k2))
		case 13:
			return fmt.Sprintf("sdiff2 %s %s %s %s", hb, hx(k), hx([]byte(b2)), hx(k2))
		case 14:
			return fmt.Sprintf("sunion2 %s %s %s %s", hb, hx(k), hx([]byte(b2)), hx(k2))
		case 15, 16:
			if noSMove {
				return fmt.Sprintf("sismember %s %s %s", hb, hx(k), hx(pickVal(r)))
			}
			return fmt.Sprintf("smove1 %s %s %s %s", hb, hx(k), hx(k2), hx(pickVal(r)))
		default:
			if noSMove {
				return []string{"smembers", "scard", "shaskey"}[r.Intn(3)] + " " + hb + " " + hx(k)
			}
			return fmt.Sprintf("smove2 %s %s %s %s %s", hb, hx(k), hx([]byte(b2)), hx(k2), hx(pickVal(r)))
		}
	default: // zset
		k := s.genSmallKey(r)
		if r.Intn(12) == 0 {
			k = []byte{}
		}
		if r.Intn(25) == 0 {
			k = []byte("a|b")
		}
		n := 0
		s.peek(dead, func(t *nutsdb.Tx) { n, _ = t.ZCard(b) })
		sc := r.Intn(5) - 2 // quarter units: many ties
		sc2 := r.Intn(13) - 6
		sc3 := r.Intn(13) - 6
		switch r.Intn(22) {
		case 0, 1, 2, 3, 4, 20, 21:
			f := float64(sc) / 4
			line := fmt.Sprintf("zadd %s %s %d %s %s %d", hb, hx(k), sc, hx([]byte(strconv.FormatFloat(f, 'f', -1, 64))), hx(pickVal(r)), now)
			if (s.profile == "merge" || s.profile == "mcrash") && !dead && s.txW && r.Intn(6) == 0 {
				// the member goes to another state and back, in adjacent records
				sc2 := sc + 1 + r.Intn(3)
				f2 := float64(sc2) / 4
				s.pendOps = append(s.pendOps, fmt.Sprintf("zadd %s %s %d %s %s %d", hb, hx(k), sc2, hx([]byte(strconv.FormatFloat(f2, 'f', -1, 64))), hx(pickVal(r)), now), line)
				return line
			}
			return s.orAgain(r, "zadd", line)
		case 5:
			return fmt.Sprintf("zrem %s %s %d", hb, hx(k), now)
		case 6:
			return fmt.Sprintf("zremrank %s %d %d %d", hb, boundaryInt(r, n), boundaryInt(r, n), now)
		case 7:
			return fmt.Sprintf("zpopmax %s %d", hb, now)
		case 8:
			return fmt.Sprintf("zpopmin %s %d", hb, now)
		case 9:
			return []string{"zpeekmax", "zpeekmin", "zmembers", "zcard"}[r.Intn(4)] + " " + hb
		case 10, 11, 12:
			op := "zrangebyscore"
			if r.Intn(4) == 0 {
				op = "zcount"
			}
			if r.Intn(3) == 0 {
				return fmt.Sprintf("%s %s %d %d 0 0 0 0", op, hb, sc2, sc3)
			}
			return fmt.Sprintf("%s %s %d %d 1 %d %d %d", op, hb, sc2, sc3, r.Intn(4)-1, r.Intn(2), r.Intn(2))
		case 13, 14:
			return fmt.Sprintf("zrangebyrank %s %d %d", hb, boundaryInt(r, n), boundaryInt(r, n))
		case 15:
			return fmt.Sprintf("zrank %s %s", hb, hx(k))
		case 16:
			return fmt.Sprintf("zrevrank %s %s", hb, hx(k))
		case 17:
			return fmt.Sprintf("zscore %s %s", hb, hx(k))
		default:
			return fmt.Sprintf("zgetbykey %s %s", hb, hx(k))
		}
	}
}

// intern returns the case-wide slice for these bytes: callers of a real application reuse their key
// and value variables, so every call with equal bytes gets the SAME backing array, which has spare
// capacity (a library that appends to or retains the caller's slice then shows).
func (s *dbSuite) intern(b []byte) []byte {
	if s.interned == nil {
		s.interned = map[string][]byte{}
	}
	if x, ok := s.interned[string(b)]; ok {
		if string(x) != string(b) {
			// the library modified the caller's bytes
			panic("caller's slice was modified by the library: " + hx(b) + " -> " + hx(x))
		}
		return x
	}
	x := make([]byte, len(b), len(b)+24)
	copy(x, b)
	s.interned[string(b)] = x
	return x
}

// peek looks at the committed state through the open transaction (or a fresh read-only one).
func (s *dbSuite) peek(dead bool, f func(t *nutsdb.Tx)) {
	defer func() { recover() }()
	if s.db == nil || dead {
		return
	}
	if s.inTx && s.tx != nil {
		f(s.tx)
		return
	}
	s.db.View(func(t *nutsdb.Tx) error { f(t); return nil })
}

// orAgain: in the Merge profiles, one write in four repeats an earlier write of the same kind verbatim
func (s *dbSuite) orAgain(r *rand.Rand, op, line string) string {
	if s.profile != "merge" && s.profile != "mcrash" {
		return line
	}
	if r.Intn(4) == 0 {
		var old []string
		for _, l := range s.again {
			if strings.HasPrefix(l, op+" ") {
				old = append(old, l)
			}
		}
		if len(old) > 0 {
			return old[len(old)-1-r.Intn(min(len(old), 4))]
		}
	}
	s.again = append(s.again, line)
	return line
}

func (s *dbSuite) genVals(r *rand.Rand) [][]byte {
	m := r.Intn(3) + 1
	if r.Intn(10) == 0 {
		m = 0
	}
	var vs [][]byte
	for i := 0; i < m; i++ {
		vs = append(vs, pickVal(r))
	}
	return vs
}

var _ = regexp.MustCompile

// ---------------------------------------------------------------- kvbig: large buckets

func (s *dbSuite) bigKey(r *rand.Rand) []byte {
	switch r.Intn(12) {
	case 0:
		return [][]byte{[]byte("a"), []byte("o9"), []byte("p"), []byte("pz"), []byte("q"), []byte("p0"), {0x70, 0xff}}[r.Intn(7)]
	case 1:
		return []byte(fmt.Sprintf("n%02d", r.Intn(12)))
	case 2:
		return []byte(fmt.Sprintf("p0%d%c", r.Intn(4), 'a'+r.Intn(3)))
	default:
		return []byte(fmt.Sprintf("p%02d", r.Intn(48)))
	}
}

func (s *dbSuite) genBigOp(r *rand.Rand) string {
	b := "a"
	if r.Intn(10) == 0 {
		b = "ab"
	}
	hb := hx([]byte(b))
	now := s.now()
	if s.txW {
		k := s.bigKey(r)
		found := false
		for _, u := range s.usedKeys[b] {
			if string(u) == string(k) {
				found = true
			}
		}
		if !found {
			s.usedKeys[b] = append(s.usedKeys[b], k)
		}
		if s.bigTx > s.bigLoad && r.Intn(3) == 0 {
			return fmt.Sprintf("del %s %s %d", hb, hx(k), now)
		}
		ttl, ts := uint32(0), uint64(now)
		if s.bigTx > s.bigLoad && r.Intn(4) == 0 {
			ttl, ts = s.genTTL(r)
		}
		return fmt.Sprintf("put %s %s %s %d %d", hb, hx(k), hx(pickVal(r)), ttl, ts)
	}
	n := len(s.usedKeys[b])
	pre := [][]byte{[]byte("p"), []byte("p0"), []byte("p1"), []byte("p2"), []byte("p3"), {}, []byte("n"), []byte("p00"), []byte("o"), []byte("q")}[r.Intn(10)]
	switch r.Intn(10) {
	case 0, 1, 2, 3, 4:
		off := r.Intn(n + 2)
		if r.Intn(2) == 0 {
			off = r.Intn(12)
		}
		lim := 1 + r.Intn(6)
		switch r.Intn(8) {
		case 0, 1:
			lim = -1
		case 2:
			lim = n + 5 + r.Intn(50) // more than the bucket can hold
		}
		if r.Intn(25) == 0 {
			lim = oddLimit(r)
		}
		return fmt.Sprintf("prefix %s %s %d %d %d", hb, hx(pre), off, lim, now)
	case 5:
		lim := r.Intn(8) + 1
		if r.Intn(3) == 0 {
			lim = -1
		}
		if r.Intn(25) == 0 {
			lim = oddLimit(r)
		}
		return fmt.Sprintf("psearch %s %s %d %d %d %d", hb, hx(pre), r.Intn(len(rxSet)), 0, lim, now)
	case 6, 7:
		k1, k2 := s.bigKey(r), s.bigKey(r)
		if string(k1) > string(k2) && r.Intn(6) != 0 {
			k1, k2 = k2, k1
		}
		return fmt.Sprintf("range %s %s %s %d", hb, hx(k1), hx(k2), now)
	case 8:
		return fmt.Sprintf("getall %s %d", hb, now)
	default:
		return fmt.Sprintf("get %s %s %d", hb, hx(s.bigKey(r)), now)
	}
}
