//go:build verif

package main

import (
	"fmt"
	"math/rand"
	"sort"
	"strings"

	"github.com/xujiajun/nutsdb/ds/list"
)

// list-ds: the exported ds/list type, directly.
type listDS struct {
	l        *list.List
	needDump bool
}

func init() { suites["list-ds"] = func() suite { return &listDS{} } }

func (s *listDS) newCase(id int) { s.l = list.New() }
func (s *listDS) endCase()       {}

func (s *listDS) sizeOf(k []byte) int {
	n, _ := s.l.Size(string(k))
	return n
}

func (s *listDS) gen(r *rand.Rand, step int) string {
	// every mutation is followed by a full dump, so a wrong list is seen at once
	if s.needDump {
		s.needDump = false
		return "dump"
	}
	line := s.gen1(r, step)
	switch strings.Fields(line)[0] {
	case "rpush", "lpush", "lpop", "rpop", "lrem", "lset", "ltrim":
		s.needDump = true
	}
	return line
}

func (s *listDS) gen1(r *rand.Rand, step int) string {
	keys := keyAlphabet[:4]
	k := pick(r, keys)
	n := s.sizeOf(k)
	switch r.Intn(16) {
	case 0, 1, 2:
		m := r.Intn(4)
		var vs [][]byte
		for i := 0; i < m; i++ {
			vs = append(vs, pickVal(r))
		}
		return fmt.Sprintf("rpush %s %s", hx(k), hxList(vs))
	case 3, 4:
		m := r.Intn(4)
		var vs [][]byte
		for i := 0; i < m; i++ {
			vs = append(vs, pickVal(r))
		}
		return fmt.Sprintf("lpush %s %s", hx(k), hxList(vs))
	case 5:
		return "lpop " + hx(k)
	case 6:
		return "rpop " + hx(k)
	case 7:
		return []string{"lpeek ", "rpeek ", "size "}[r.Intn(3)] + hx(k)
	case 8, 9, 10:
		return fmt.Sprintf("lrange %s %d %d", hx(k), boundaryInt(r, n), boundaryInt(r, n))
	case 11, 12:
		op := "lrem"
		if r.Intn(4) == 0 {
			op = "lremnum"
		}
		return fmt.Sprintf("%s %s %d %s", op, hx(k), boundaryInt(r, n), hx(pickVal(r)))
	case 13:
		return fmt.Sprintf("lset %s %d %s", hx(k), boundaryInt(r, n), hx(pickVal(r)))
	case 14:
		return fmt.Sprintf("ltrim %s %d %d", hx(k), boundaryInt(r, n), boundaryInt(r, n))
	default:
		return "dump"
	}
}

func errOr(err error, ok string) string {
	if err != nil {
		return "err"
	}
	if ok == "" {
		return "ok"
	}
	return "ok " + ok
}

func (s *listDS) exec(line string) string {
	f := strings.Fields(line)
	l := s.l
	switch f[0] {
	case "rpush":
		n, err := l.RPush(string(unhx(f[1])), unhxList(f[2])...)
		return errOr(err, fmt.Sprint(n))
	case "lpush":
		n, err := l.LPush(string(unhx(f[1])), unhxList(f[2])...)
		return errOr(err, fmt.Sprint(n))
	case "lpop":
		v, err := l.LPop(string(unhx(f[1])))
		return errOr(err, hx(v))
	case "rpop":
		v, err := l.RPop(string(unhx(f[1])))
		return errOr(err, hx(v))
	case "lpeek":
		v, err := l.LPeek(string(unhx(f[1])))
		return errOr(err, hx(v))
	case "rpeek":
		v, _, err := l.RPeek(string(unhx(f[1])))
		return errOr(err, hx(v))
	case "size":
		n, err := l.Size(string(unhx(f[1])))
		return errOr(err, fmt.Sprint(n))
	case "lrange":
		vs, err := l.LRange(string(unhx(f[1])), atoi(f[2]), atoi(f[3]))
		return errOr(err, hxList(vs))
	case "lrem":
		n, err := l.LRem(string(unhx(f[1])), atoi(f[2]), unhx(f[3]))
		return errOr(err, fmt.Sprint(n))
	case "lremnum":
		n, err := l.LRemNum(string(unhx(f[1])), atoi(f[2]), unhx(f[3]))
		return errOr(err, fmt.Sprint(n))
	case "lset":
		return errOr(l.LSet(string(unhx(f[1])), atoi(f[2]), unhx(f[3])), "")
	case "ltrim":
		return errOr(l.Ltrim(string(unhx(f[1])), atoi(f[2]), atoi(f[3])), "")
	case "dump":
		return "ok " + dumpListItems(l.Items)
	}
	return "bad-op"
}

func dumpListItems(items map[string][][]byte) string {
	var ks []string
	for k := range items {
		ks = append(ks, k)
	}
	sort.Strings(ks)
	var p []string
	for _, k := range ks {
		p = append(p, hx([]byte(k))+"="+hxList(items[k]))
	}
	return "{" + strings.Join(p, ";") + "}"
}
