//go:build verif

// harness: drives the real nutsdb code (built from /repo with -tags verif) with generated or
// given operation scripts and writes a trace: one line per operation, `<op> <args> => <result>`.
// The same trace is fed to the Lean driver, which runs the model and the spec on it.
//
//	harness gen  -suite S -seed N -cases C -out trace      generate + execute
//	harness run  -suite S -in script -out trace            execute a given script (replay / shrink)
//
// Every random choice comes from one PRNG seeded by -seed; case i uses a PRNG derived from (seed, i).
package main

import (
	"bufio"
	"encoding/hex"
	"flag"
	"fmt"
	"math/rand"
	"os"
	"runtime/debug"
	"strconv"
	"strings"
)

// ---- line protocol helpers

func hx(b []byte) string {
	if len(b) == 0 {
		return "-"
	}
	return hex.EncodeToString(b)
}

func unhx(s string) []byte {
	if s == "-" {
		return []byte{}
	}
	b, err := hex.DecodeString(s)
	if err != nil {
		panic("bad hex " + s)
	}
	return b
}

func hxList(bs [][]byte) string {
	if len(bs) == 0 {
		return "[]"
	}
	var p []string
	for _, b := range bs {
		p = append(p, hx(b))
	}
	return "[" + strings.Join(p, ",") + "]"
}

func unhxList(s string) [][]byte {
	s = strings.TrimSuffix(strings.TrimPrefix(s, "["), "]")
	if s == "" {
		return nil
	}
	var out [][]byte
	for _, p := range strings.Split(s, ",") {
		out = append(out, unhx(p))
	}
	return out
}

func atoi(s string) int {
	n, err := strconv.ParseInt(s, 10, 64)
	if err != nil {
		panic("bad int " + s)
	}
	return int(n)
}

// protect runs f and converts a Go panic into the result "panic".
func protect(f func() string) (res string) {
	defer func() {
		if r := recover(); r != nil {
			if os.Getenv("VERIF_PANIC_TRACE") != "" {
				fmt.Fprintf(os.Stderr, "panic: %v\n%s\n", r, debug.Stack())
			}
			res = "panic"
		}
	}()
	return f()
}

// suite is one correspondence suite: a generator of scripts and an executor.
type suite interface {
	// newCase resets implementation state for a new case.
	newCase(id int)
	// gen produces the next script line of the current case (may look at implementation state),
	// or "" when the case is complete.
	gen(r *rand.Rand, step int) string
	// exec executes one script line and returns the canonical result.
	exec(line string) string
	// endCase releases resources.
	endCase()
}

var suites = map[string]func() suite{}

// harnessSeed is the -seed of this run (suites that derive their own PRNG streams use it)
var harnessSeed int64

func main() {
	if len(os.Args) < 2 {
		fmt.Fprintln(os.Stderr, "usage: harness gen|run ...")
		os.Exit(2)
	}
	mode := os.Args[1]
	if mode == "conc" {
		runConc(os.Args[2:])
		return
	}
	fs := flag.NewFlagSet(mode, flag.ExitOnError)
	suiteName := fs.String("suite", "", "suite name")
	seed := fs.Int64("seed", 1, "seed")
	cases := fs.Int("cases", 10, "number of cases")
	steps := fs.Int("steps", 40, "max steps per case")
	in := fs.String("in", "", "input script")
	out := fs.String("out", "", "output trace")
	fs.Parse(os.Args[2:])
	harnessSeed = *seed
	mk, ok := suites[*suiteName]
	if !ok {
		var names []string
		for n := range suites {
			names = append(names, n)
		}
		fmt.Fprintln(os.Stderr, "unknown suite; have:", names)
		os.Exit(2)
	}
	var w *bufio.Writer
	if *out == "" || *out == "-" {
		w = bufio.NewWriter(os.Stdout)
	} else {
		f, err := os.Create(*out)
		if err != nil {
			panic(err)
		}
		defer f.Close()
		w = bufio.NewWriter(f)
	}
	defer w.Flush()
	s := mk()
	fmt.Fprintf(w, "suite %s\n", *suiteName)
	switch mode {
	case "gen":
		for c := 0; c < *cases; c++ {
			r := rand.New(rand.NewSource(*seed*1000003 + int64(c)))
			fmt.Fprintf(w, "case %d\n", c)
			s.newCase(c)
			for st := 0; st < *steps; st++ {
				line := s.gen(r, st)
				if line == "" {
					break
				}
				res := protect(func() string { return s.exec(line) })
				fmt.Fprintf(w, "%s => %s\n", line, res)
				w.Flush()
			}
			s.endCase()
		}
	case "run":
		f, err := os.Open(*in)
		if err != nil {
			panic(err)
		}
		sc := bufio.NewScanner(f)
		sc.Buffer(make([]byte, 1<<20), 1<<26)
		open := false
		n := 0
		for sc.Scan() {
			line := strings.TrimSpace(sc.Text())
			if i := strings.Index(line, " => "); i >= 0 {
				line = line[:i]
			}
			if line == "" || strings.HasPrefix(line, "#") || strings.HasPrefix(line, "suite ") {
				continue
			}
			if strings.HasPrefix(line, "case ") {
				if open {
					s.endCase()
				}
				fmt.Fprintln(w, line)
				s.newCase(n)
				n++
				open = true
				continue
			}
			if !open {
				fmt.Fprintln(w, "case 0")
				s.newCase(0)
				open = true
			}
			res := protect(func() string { return s.exec(line) })
			fmt.Fprintf(w, "%s => %s\n", line, res)
			w.Flush()
		}
		if open {
			s.endCase()
		}
	default:
		fmt.Fprintln(os.Stderr, "unknown mode", mode)
		os.Exit(2)
	}
}

// ---- shared generators

var keyAlphabet = [][]byte{[]byte("a"), []byte("ab"), []byte("abc"), []byte("b"), []byte("a|b"), []byte("ba"), []byte("k"), {0xff}, {0x61, 0xff}, []byte("|"), []byte(" ")}
var valAlphabet = [][]byte{[]byte("x"), []byte("y"), []byte(""), []byte("a|b"), []byte("|"), []byte("1|x"), []byte("x"), []byte("zz"), []byte("-1|y"), {0}}

func pick(r *rand.Rand, xs [][]byte) []byte { return xs[r.Intn(len(xs))] }

// pickVal draws a value: mostly from a two-letter alphabet (many duplicates), sometimes an odd one.
func pickVal(r *rand.Rand) []byte {
	if r.Intn(10) < 6 {
		return valAlphabet[r.Intn(2)]
	}
	return valAlphabet[r.Intn(len(valAlphabet))]
}

// boundaryInt draws an index around a structure of size n.
func boundaryInt(r *rand.Rand, n int) int {
	switch r.Intn(12) {
	case 0:
		return -9223372036854775808
	case 1:
		return 9223372036854775807
	case 2:
		return -9223372036854775807
	case 3:
		return 0
	case 4:
		return -1
	default:
		return r.Intn(2*n+5) - n - 2
	}
}
