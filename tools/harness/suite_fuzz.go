//go:build verif

package main

import (
	"fmt"
	"math"
	"math/rand"
	"os"
	"runtime/debug"
	"strconv"
	"strings"

	"github.com/xujiajun/nutsdb"
	"github.com/xujiajun/nutsdb/ds/zset"
)

// api-fuzz: the *search* part of property C20. Every exported method of DB and Tx is called with
// arguments from boundary-heavy pools (empty and nil keys and buckets, separator bytes, math.MinInt64 /
// MaxInt64, reversed ranges, NaN and infinite scores, invalid regular expressions), in arbitrary order,
// before and after Close and after Commit/Rollback of the transaction. There is no model behind this
// suite: the only question per line is "did the call panic?". Each line carries the context needed to
// recognise the signature of a listed finding:
//
//	fz <mode> <db: open|closed> <tx: none|r|w|done>[+s] <api> <args…>  => ok | err | panic
//
// (+s: the write transaction holds list/set/sorted-set records).
type fuzzSuite struct {
	scratch string
	dir     string
	mode    int
	db      *nutsdb.DB
	dbOpen  bool
	tx      *nutsdb.Tx
	txState string
	txS     bool
	seg     int64
	// a call panicked: locks may be held and state half-updated, so the case ends here
	poisoned bool
	dirty    bool
}

func init() { suites["api-fuzz"] = func() suite { return &fuzzSuite{} } }

func (s *fuzzSuite) newCase(id int) {
	base := "/dev/shm"
	if _, err := os.Stat(base); err != nil {
		base = os.TempDir()
	}
	d, err := os.MkdirTemp(base, "nutsverif-fuzz-")
	if err != nil {
		panic(err)
	}
	s.scratch, s.dir = d, d+"/db"
	s.db, s.tx, s.dbOpen, s.txState, s.txS = nil, nil, false, "none", false
	s.poisoned, s.dirty = false, false
	nutsdb.VerifFSHook = nil
}

func (s *fuzzSuite) endCase() {
	func() {
		defer func() { recover() }()
		if s.tx != nil && (s.txState == "r" || s.txState == "w") {
			s.tx.Rollback()
		}
	}()
	func() {
		defer func() { recover() }()
		if s.db != nil && s.dbOpen {
			s.db.Close()
		}
	}()
	os.RemoveAll(s.scratch)
}

var fzBuckets = []string{"", "a", "b", "a|b", "ab"}
var fzKeys = []string{"", "a", "b", "k|1", "|", "\xff", "a\x00", " ", "nil"}
var fzInts = []int{math.MinInt64, math.MinInt64 + 1, -3, -2, -1, 0, 1, 2, 3, math.MaxInt64 - 1, math.MaxInt64}
var fzFloats = []string{"nan", "inf", "-inf", "0", "-0", "1.5", "-2.25", "max", "tiny", "3"}
var fzRegs = []string{"", ".*", "[", "(", "a{1001}", "\\", "^b", "(?P<n>", "x*"}
var fzAPIs = []string{
	"Put", "PutWithTimestamp", "Get", "GetAll", "RangeScan", "PrefixScan", "PrefixSearchScan", "Delete",
	"FindTxIDOnDisk", "FindOnDisk", "FindLeafOnDisk",
	"RPop", "RPeek", "RPush", "LPush", "LPop", "LPeek", "LSize", "LRange", "LRem", "LSet", "LTrim",
	"SAdd", "SRem", "SAreMembers", "SIsMember", "SMembers", "SHasKey", "SPop", "SCard", "SDiffByOneBucket", "SDiffByTwoBuckets",
	"SMoveByOneBucket", "SMoveByTwoBuckets", "SUnionByOneBucket", "SUnionByTwoBuckets",
	"ZAdd", "ZMembers", "ZCard", "ZCount", "ZPopMax", "ZPopMin", "ZPeekMax", "ZPeekMin", "ZRangeByScore", "ZRangeByRank", "ZRem",
	"ZRemRangeByRank", "ZRank", "ZRevRank", "ZScore", "ZGetByKey",
}

func (s *fuzzSuite) ctx() string {
	db := "closed"
	if s.dbOpen {
		db = "open"
		if s.dirty {
			db = "open-dirty" // a Commit of a write transaction failed earlier: its written prefix is in the files
		}
	}
	t := s.txState
	if s.txS && t == "w" {
		t += "+s"
	}
	return fmt.Sprintf("fz %d %s %s", s.mode, db, t)
}

func fzPick(r *rand.Rand, xs []string) string { return xs[r.Intn(len(xs))] }

func fzQ(x string) string { return strconv.Quote(x) }

func (s *fuzzSuite) gen(r *rand.Rand, step int) string {
	if s.poisoned {
		return ""
	}
	if step == 0 {
		s.mode = []int{0, 0, 0, 1, 2}[r.Intn(5)]
		s.seg = []int64{64, 128, 256, 8192}[r.Intn(4)]
		return fmt.Sprintf("fz %d closed none Open %d %d %d", s.mode, s.seg, r.Intn(2), r.Intn(2))
	}
	// lifecycle calls now and then, in any state
	switch r.Intn(14) {
	case 0:
		return s.ctx() + " Begin " + []string{"w", "r"}[r.Intn(2)]
	case 1:
		return s.ctx() + " Commit"
	case 2:
		if r.Intn(2) == 0 {
			return s.ctx() + " Rollback"
		}
	case 3:
		switch r.Intn(8) {
		case 0:
			return s.ctx() + " Close"
		case 1:
			return s.ctx() + " Merge"
		case 2:
			return s.ctx() + " Backup"
		case 3:
			return s.ctx() + fmt.Sprintf(" Open %d %d %d", s.seg, r.Intn(2), r.Intn(2))
		}
	}
	if s.txState == "none" && r.Intn(3) != 0 {
		return s.ctx() + " Begin " + []string{"w", "w", "r"}[r.Intn(3)]
	}
	api := fzPick(r, fzAPIs)
	b, b2 := fzQ(fzPick(r, fzBuckets)), fzQ(fzPick(r, fzBuckets))
	k, k2, v := fzQ(fzPick(r, fzKeys)), fzQ(fzPick(r, fzKeys)), fzQ(fzPick(r, fzKeys))
	i1, i2 := fzInts[r.Intn(len(fzInts))], fzInts[r.Intn(len(fzInts))]
	f1, f2 := fzPick(r, fzFloats), fzPick(r, fzFloats)
	// mostly on buckets/keys that exist, so that the deeper paths are reached
	if r.Intn(3) != 0 {
		b, k = fzQ("a"), fzQ("a")
	}
	switch api {
	case "Put", "PutWithTimestamp":
		return fmt.Sprintf("%s %s %s %s %s %d %d", s.ctx(), api, b, k, v, r.Intn(3), fzInts[r.Intn(len(fzInts))])
	case "Get", "Delete", "RPop", "RPeek", "LPop", "LPeek", "LSize", "SMembers", "SHasKey", "SPop", "SCard", "ZRank", "ZRevRank", "ZScore", "ZGetByKey", "ZRem":
		return fmt.Sprintf("%s %s %s %s", s.ctx(), api, b, k)
	case "GetAll", "ZMembers", "ZCard", "ZPopMax", "ZPopMin", "ZPeekMax", "ZPeekMin":
		return fmt.Sprintf("%s %s %s", s.ctx(), api, b)
	case "RangeScan":
		return fmt.Sprintf("%s %s %s %s %s", s.ctx(), api, b, k, k2)
	case "PrefixScan":
		return fmt.Sprintf("%s %s %s %s %d %d", s.ctx(), api, b, k, i1, i2)
	case "PrefixSearchScan":
		return fmt.Sprintf("%s %s %s %s %s %d %d", s.ctx(), api, b, k, fzQ(fzPick(r, fzRegs)), i1, i2)
	case "FindTxIDOnDisk":
		return fmt.Sprintf("%s %s %d %d", s.ctx(), api, r.Intn(3), r.Intn(5))
	case "FindOnDisk", "FindLeafOnDisk":
		return fmt.Sprintf("%s %s %d %d %s %s", s.ctx(), api, r.Intn(3), []int{-1, 0, 1, 7, 4096}[r.Intn(5)], k, k2)
	case "RPush", "LPush", "SAdd", "SRem", "SAreMembers":
		n := r.Intn(3)
		vs := []string{}
		for j := 0; j < n; j++ {
			vs = append(vs, fzQ(fzPick(r, fzKeys)))
		}
		return fmt.Sprintf("%s %s %s %s %s", s.ctx(), api, b, k, strings.Join(vs, " "))
	case "LRange", "LTrim":
		return fmt.Sprintf("%s %s %s %s %d %d", s.ctx(), api, b, k, i1, i2)
	case "LRem", "LSet":
		return fmt.Sprintf("%s %s %s %s %d %s", s.ctx(), api, b, k, i1, v)
	case "SIsMember":
		return fmt.Sprintf("%s %s %s %s %s", s.ctx(), api, b, k, v)
	case "SDiffByOneBucket", "SUnionByOneBucket":
		return fmt.Sprintf("%s %s %s %s %s", s.ctx(), api, b, k, k2)
	case "SDiffByTwoBuckets", "SUnionByTwoBuckets":
		return fmt.Sprintf("%s %s %s %s %s %s", s.ctx(), api, b, k, b2, k2)
	case "SMoveByOneBucket":
		return fmt.Sprintf("%s %s %s %s %s %s", s.ctx(), api, b, k, k2, v)
	case "SMoveByTwoBuckets":
		return fmt.Sprintf("%s %s %s %s %s %s %s", s.ctx(), api, b, k, b2, k2, v)
	case "ZAdd":
		return fmt.Sprintf("%s %s %s %s %s %s", s.ctx(), api, b, k, f1, v)
	case "ZCount", "ZRangeByScore":
		return fmt.Sprintf("%s %s %s %s %s %d", s.ctx(), api, b, f1, f2, r.Intn(6))
	case "ZRangeByRank", "ZRemRangeByRank":
		return fmt.Sprintf("%s %s %s %d %d", s.ctx(), api, b, i1, i2)
	}
	return s.ctx() + " GetAll " + b
}

func fzFloat(x string) float64 {
	switch x {
	case "nan":
		return math.NaN()
	case "inf":
		return math.Inf(1)
	case "-inf":
		return math.Inf(-1)
	case "max":
		return math.MaxFloat64
	case "tiny":
		return math.SmallestNonzeroFloat64
	case "-0":
		return math.Copysign(0, -1)
	}
	f, _ := strconv.ParseFloat(x, 64)
	return f
}

func fzOpts(i int) *zset.GetByScoreRangeOptions {
	switch i {
	case 0:
		return nil
	case 1:
		return &zset.GetByScoreRangeOptions{Limit: -1}
	case 2:
		return &zset.GetByScoreRangeOptions{Limit: 1, ExcludeStart: true}
	case 3:
		return &zset.GetByScoreRangeOptions{ExcludeEnd: true}
	case 4:
		return &zset.GetByScoreRangeOptions{Limit: math.MaxInt64, ExcludeStart: true, ExcludeEnd: true}
	}
	return &zset.GetByScoreRangeOptions{}
}

// splitArgs splits a line into fields, keeping Go-quoted strings together.
func splitArgs(line string) []string {
	var out []string
	i := 0
	for i < len(line) {
		for i < len(line) && line[i] == ' ' {
			i++
		}
		if i >= len(line) {
			break
		}
		if line[i] == '"' {
			s, err := strconv.QuotedPrefix(line[i:])
			if err != nil {
				panic("bad quoted arg in " + line)
			}
			out = append(out, s)
			i += len(s)
			continue
		}
		j := strings.IndexByte(line[i:], ' ')
		if j < 0 {
			j = len(line) - i
		}
		out = append(out, line[i:i+j])
		i += j
	}
	return out
}

func (s *fuzzSuite) exec(line string) (res string) {
	defer func() {
		if r := recover(); r != nil {
			if os.Getenv("VERIF_PANIC_TRACE") != "" {
				fmt.Fprintf(os.Stderr, "panic in %s: %v\n", line, r)
				if os.Getenv("VERIF_PANIC_TRACE") == "2" {
					fmt.Fprintf(os.Stderr, "%s\n", debug.Stack())
				}
			}
			s.poisoned = true
			res = "panic"
		}
	}()
	f := splitArgs(line)
	api := f[4]
	a := f[5:]
	str := func(i int) string {
		if i >= len(a) {
			return ""
		}
		u, err := strconv.Unquote(a[i])
		if err != nil {
			return a[i]
		}
		return u
	}
	key := func(i int) []byte {
		x := str(i)
		if x == "nil" {
			return nil
		}
		return []byte(x)
	}
	num := func(i int) int {
		if i >= len(a) {
			return 0
		}
		n, _ := strconv.ParseInt(a[i], 10, 64)
		return int(n)
	}
	e := func(err error) string {
		if err != nil {
			return "err"
		}
		return "ok"
	}
	// DB-level
	switch api {
	case "Open":
		if s.dbOpen {
			return "err" // one handle per directory in this suite
		}
		s.mode = atoi(f[1]) // replayed scripts carry the mode in their context fields
		opt := nutsdb.DefaultOptions
		opt.Dir = s.dir
		opt.SegmentSize = int64(num(0))
		opt.EntryIdxMode = nutsdb.EntryIdxMode(s.mode)
		opt.RWMode = nutsdb.RWMode(num(1))
		opt.SyncEnable = num(2) == 1
		db, err := nutsdb.Open(opt)
		if err != nil {
			return "err"
		}
		s.db, s.dbOpen, s.tx, s.txState, s.txS = db, true, nil, "none", false
		return "ok"
	case "Close":
		if s.db == nil {
			return "err"
		}
		if s.txState == "r" || s.txState == "w" {
			// Close would wait for the lock held by the open transaction: finish it first
			func() { defer func() { recover() }(); s.tx.Rollback() }()
			s.txState = "done"
		}
		err := s.db.Close()
		if err == nil {
			s.dbOpen = false
		}
		return e(err)
	case "Merge":
		if s.db == nil {
			return "err"
		}
		if s.txState == "r" || s.txState == "w" {
			return "skip" // Merge takes the write lock inside: it would block on our own open transaction
		}
		return e(s.db.Merge())
	case "Backup":
		if s.db == nil {
			return "err"
		}
		if s.txState == "w" {
			return "skip"
		}
		d := s.scratch + "/bk"
		os.RemoveAll(d)
		if s.txState == "r" {
			return "skip"
		}
		return e(s.db.Backup(d))
	case "Begin":
		if s.db == nil {
			return "err"
		}
		if s.txState == "r" || s.txState == "w" {
			return "skip" // a second Begin from the same goroutine would block on the lock
		}
		tx, err := s.db.Begin(str(0) == "w")
		if err != nil {
			return "err"
		}
		// txS stays set once a structure record has been queued in this database: a later rotation may find
		// the active segment without any key/value record
		s.tx, s.txState = tx, str(0)
		return "ok"
	}
	if s.tx == nil {
		return "skip"
	}
	tx := s.tx
	switch api {
	case "Commit":
		err := tx.Commit()
		if err != nil && (s.txState == "r" || s.txState == "w") {
			if s.txState == "w" {
				s.dirty = true
			}
			func() { defer func() { recover() }(); tx.Rollback() }()
		}
		if s.txState == "r" || s.txState == "w" {
			s.txState = "done"
		}
		return e(err)
	case "Rollback":
		err := tx.Rollback()
		if s.txState == "r" || s.txState == "w" {
			s.txState = "done"
		}
		return e(err)
	}
	structOp := false
	var err error
	switch api {
	case "Put":
		err = tx.Put(str(0), key(1), key(2), uint32(num(3)))
	case "PutWithTimestamp":
		err = tx.PutWithTimestamp(str(0), key(1), key(2), uint32(num(3)), uint64(num(4)))
	case "Get":
		_, err = tx.Get(str(0), key(1))
	case "GetAll":
		_, err = tx.GetAll(str(0))
	case "RangeScan":
		_, err = tx.RangeScan(str(0), key(1), key(2))
	case "PrefixScan":
		_, _, err = tx.PrefixScan(str(0), key(1), num(2), num(3))
	case "PrefixSearchScan":
		_, _, err = tx.PrefixSearchScan(str(0), key(1), str(2), num(3), num(4))
	case "Delete":
		err = tx.Delete(str(0), key(1))
	case "FindTxIDOnDisk":
		_, err = tx.FindTxIDOnDisk(uint64(num(0)), uint64(num(1)))
	case "FindOnDisk":
		_, err = tx.FindOnDisk(uint64(num(0)), uint64(num(1)), key(2), key(3))
	case "FindLeafOnDisk":
		_, err = tx.FindLeafOnDisk(int64(num(0)), int64(num(1)), key(2), key(3))
	case "RPop":
		structOp = true
		_, err = tx.RPop(str(0), key(1))
	case "RPeek":
		_, err = tx.RPeek(str(0), key(1))
	case "LPop":
		structOp = true
		_, err = tx.LPop(str(0), key(1))
	case "LPeek":
		_, err = tx.LPeek(str(0), key(1))
	case "LSize":
		_, err = tx.LSize(str(0), key(1))
	case "RPush", "LPush", "SAdd", "SRem", "SAreMembers":
		var vs [][]byte
		for i := 2; i < len(a); i++ {
			vs = append(vs, key(i))
		}
		structOp = api != "SAreMembers"
		switch api {
		case "RPush":
			err = tx.RPush(str(0), key(1), vs...)
		case "LPush":
			err = tx.LPush(str(0), key(1), vs...)
		case "SAdd":
			err = tx.SAdd(str(0), key(1), vs...)
		case "SRem":
			err = tx.SRem(str(0), key(1), vs...)
		case "SAreMembers":
			_, err = tx.SAreMembers(str(0), key(1), vs...)
		}
	case "LRange":
		_, err = tx.LRange(str(0), key(1), num(2), num(3))
	case "LTrim":
		structOp = true
		err = tx.LTrim(str(0), key(1), num(2), num(3))
	case "LRem":
		structOp = true
		_, err = tx.LRem(str(0), key(1), num(2), key(3))
	case "LSet":
		structOp = true
		err = tx.LSet(str(0), key(1), num(2), key(3))
	case "SIsMember":
		_, err = tx.SIsMember(str(0), key(1), key(2))
	case "SMembers":
		_, err = tx.SMembers(str(0), key(1))
	case "SHasKey":
		_, err = tx.SHasKey(str(0), key(1))
	case "SPop":
		structOp = true
		_, err = tx.SPop(str(0), key(1))
	case "SCard":
		_, err = tx.SCard(str(0), key(1))
	case "SDiffByOneBucket":
		_, err = tx.SDiffByOneBucket(str(0), key(1), key(2))
	case "SUnionByOneBucket":
		_, err = tx.SUnionByOneBucket(str(0), key(1), key(2))
	case "SDiffByTwoBuckets":
		_, err = tx.SDiffByTwoBuckets(str(0), key(1), str(2), key(3))
	case "SUnionByTwoBuckets":
		_, err = tx.SUnionByTwoBuckets(str(0), key(1), str(2), key(3))
	case "SMoveByOneBucket":
		_, err = tx.SMoveByOneBucket(str(0), key(1), key(2), key(3))
	case "SMoveByTwoBuckets":
		_, err = tx.SMoveByTwoBuckets(str(0), key(1), str(2), key(3), key(4))
	case "ZAdd":
		structOp = true
		err = tx.ZAdd(str(0), key(1), fzFloat(str(2)), key(3))
	case "ZMembers":
		_, err = tx.ZMembers(str(0))
	case "ZCard":
		_, err = tx.ZCard(str(0))
	case "ZCount":
		_, err = tx.ZCount(str(0), fzFloat(str(1)), fzFloat(str(2)), fzOpts(num(3)))
	case "ZRangeByScore":
		_, err = tx.ZRangeByScore(str(0), fzFloat(str(1)), fzFloat(str(2)), fzOpts(num(3)))
	case "ZPopMax":
		structOp = true
		_, err = tx.ZPopMax(str(0))
	case "ZPopMin":
		structOp = true
		_, err = tx.ZPopMin(str(0))
	case "ZPeekMax":
		_, err = tx.ZPeekMax(str(0))
	case "ZPeekMin":
		_, err = tx.ZPeekMin(str(0))
	case "ZRangeByRank":
		_, err = tx.ZRangeByRank(str(0), num(1), num(2))
	case "ZRem":
		structOp = true
		err = tx.ZRem(str(0), str(1))
	case "ZRemRangeByRank":
		structOp = true
		err = tx.ZRemRangeByRank(str(0), num(1), num(2))
	case "ZRank":
		_, err = tx.ZRank(str(0), key(1))
	case "ZRevRank":
		_, err = tx.ZRevRank(str(0), key(1))
	case "ZScore":
		_, err = tx.ZScore(str(0), key(1))
	case "ZGetByKey":
		_, err = tx.ZGetByKey(str(0), key(1))
	default:
		return "bad-op"
	}
	if structOp && err == nil && s.txState == "w" {
		s.txS = true
	}
	return e(err)
}
