//go:build verif

package main

// conc: many goroutines run transactions on one database; the order in which transactions acquired the
// database lock is observed through the verif hook (a sequence number is drawn while the lock is
// held), and the trace is written in that order. If the implementation is strictly serializable in
// lock-acquisition order, the trace is an ordinary sequential `db` trace and the Lean driver checks it
// against model and spec like any other. Optional: a goroutine calling Merge in a loop (C17), Backup
// calls (C18), several databases at once (C14), yields injected at hook points.
//
//   harness conc -profile kv|structs|mergekv -seed N -workers W -txs T -dbs D [-merge] [-backup] -out trace

import (
	"bufio"
	"flag"
	"fmt"
	"math/rand"
	"os"
	"runtime"
	"sort"
	"strconv"
	"strings"
	"sync"
	"sync/atomic"
	"time"

	"github.com/xujiajun/nutsdb"
)

type txRecord struct {
	seq   int64
	lines []string
}

type concDB struct {
	base   *dbSuite
	seq    int64
	seqOf  sync.Map // tx id -> seq
	recs   []txRecord
	recsMu sync.Mutex
	yield  int
	opened bool
	active int64 // workers still running
}

var concByDir sync.Map // dir -> *concDB

var concMergeRuns atomic.Bool // a Merge goroutine is part of this run

func concHook(op, path string, off int64, data []byte) error {
	if op == "lock-acq" {
		if v, ok := concByDir.Load(path); ok {
			c := v.(*concDB)
			n := atomic.AddInt64(&c.seq, 1)
			c.seqOf.Store(uint64(off), n)
			lastSeqOfGoroutine.Store(goid(), n)
		}
		return nil
	}
	// schedule perturbation at file-mutation points
	if op == "write" || op == "sync" || op == "unlock" || op == "lock-req" {
		if rand.Intn(4) == 0 {
			runtime.Gosched()
		}
	}
	// Merge is between two segments here (one just rewritten, about to be unlinked): let the other
	// goroutines run for a moment in exactly that state
	// (only when a Merge goroutine runs: in sparse mode every record read opens its data file, and a sleep
	// per open made a run crawl past the time limit — a false deadlock alarm of 2026-09-22)
	if concMergeRuns.Load() && (op == "remove" || op == "create" || op == "truncate") {
		if rand.Intn(2) == 0 {
			time.Sleep(300 * time.Microsecond)
		}
	}
	return nil
}

func runConc(args []string) {
	fs := flag.NewFlagSet("conc", flag.ExitOnError)
	profile := fs.String("profile", "kv", "workload profile")
	seed := fs.Int64("seed", 1, "seed")
	workers := fs.Int("workers", 8, "goroutines per database")
	txs := fs.Int("txs", 40, "transactions per goroutine")
	ndbs := fs.Int("dbs", 1, "databases driven at once")
	merge := fs.Bool("merge", false, "a goroutine calls Merge repeatedly")
	defer func() { concMergeRuns.Store(false) }()
	backup := fs.Bool("backup", false, "a goroutine calls Backup a few times")
	fs.BoolVar(&noSMove, "nosmove", false, "the structs workload leaves SMoveByOneBucket / SMoveByTwoBuckets out")
	mode := fs.Int("mode", 0, "EntryIdxMode")
	out := fs.String("out", "-", "output trace")
	fs.Parse(args)
	concMergeRuns.Store(*merge)
	var w *bufio.Writer
	if *out == "-" {
		w = bufio.NewWriter(os.Stdout)
	} else {
		f, err := os.Create(*out)
		if err != nil {
			panic(err)
		}
		defer f.Close()
		w = bufio.NewWriter(f)
	}
	defer w.Flush()
	nutsdb.VerifFSHook = concHook
	suiteName := "db-" + *profile
	fmt.Fprintf(w, "suite %s\n", suiteName)
	var dbs []*concDB
	var wg sync.WaitGroup
	r0 := rand.New(rand.NewSource(*seed))
	// all databases are opened first (newCase sets the package-level hook), then the workers start
	for d := 0; d < *ndbs; d++ {
		base := &dbSuite{profile: *profile}
		base.newCase(d)
		seg := []int{128, 200, 256, 512}[r0.Intn(4)]
		if *profile == "backup" {
			seg = 65536
		}
		if *merge {
			// small segments: many files to merge, and transactions that span several of them
			seg = []int{100, 128, 160}[r0.Intn(3)]
		}
		openLine := fmt.Sprintf("open %d %d %d %d %d", *mode, r0.Intn(2), r0.Intn(2), r0.Intn(2), seg)
		res := base.exec(openLine)
		c := &concDB{base: base, opened: res == "ok"}
		first := []string{openLine + " => " + res}
		if *merge {
			first = append(first, "concmerge => ok")
		}
		c.recs = append(c.recs, txRecord{seq: 0, lines: first})
		concByDir.Store(base.dir, c)
		dbs = append(dbs, c)
	}
	nutsdb.VerifFSHook = concHook
	for d, c := range dbs {
		if !c.opened {
			continue
		}
		atomic.StoreInt64(&c.active, int64(*workers))
		for g := 0; g < *workers; g++ {
			wg.Add(1)
			go func(c *concDB, g, d int) {
				defer wg.Done()
				defer atomic.AddInt64(&c.active, -1)
				r := rand.New(rand.NewSource(*seed*7919 + int64(g)*104729 + int64(d)))
				ws := &dbSuite{profile: *profile, db: c.base.db, dir: c.base.dir, opt: c.base.opt, scratch: c.base.scratch,
					usedKeys: map[string][][]byte{}, opened: true, faultAt: -1}
				for t := 0; t < *txs; t++ {
					c.oneTx(ws, r)
				}
			}(c, g, d)
		}
		if *merge {
			wg.Add(1)
			go func(c *concDB) {
				defer wg.Done()
				// Merge again and again for as long as the workers run
				for i := 0; atomic.LoadInt64(&c.active) > 0 && i < 400; i++ {
					time.Sleep(time.Duration(1+i%3) * time.Millisecond)
					func() {
						defer func() { recover() }()
						c.base.db.Merge()
					}()
				}
			}(c)
		}
		if *backup {
			wg.Add(1)
			go func(c *concDB) {
				defer wg.Done()
				for i := 0; i < 3; i++ {
					time.Sleep(time.Duration(3+2*i) * time.Millisecond)
					c.oneBackup(i)
				}
			}(c)
		}
	}
	wg.Wait()
	for d, c := range dbs {
		sort.Slice(c.recs, func(i, j int) bool { return c.recs[i].seq < c.recs[j].seq })
		fmt.Fprintf(w, "case %d\n", d)
		for _, rec := range c.recs {
			for _, l := range rec.lines {
				fmt.Fprintln(w, l)
			}
		}
		if c.base.db != nil {
			line := fmt.Sprintf("obs %d", time.Now().Unix())
			fmt.Fprintf(w, "%s => %s\n", line, protect(func() string { return c.base.exec(line) }))
		}
		c.base.endCase()
	}
}

// oneTx runs one transaction of a worker and records its lines with the lock-acquisition sequence number.
func (c *concDB) oneTx(ws *dbSuite, r *rand.Rand) {
	writable := r.Intn(3) != 0
	var lines []string
	beginLine := "begin r"
	if writable {
		beginLine = "begin w"
	}
	res := protect(func() string { return ws.exec(beginLine) })
	lines = append(lines, beginLine+" => "+res)
	if !strings.HasPrefix(res, "ok") {
		return
	}
	ws.inTx, ws.txW = true, writable
	id, _ := strconv.ParseUint(strings.TrimPrefix(res, "ok "), 10, 64)
	n := 1 + r.Intn(4)
	for i := 0; i < n; i++ {
		line := ws.genOp(r, false)
		res := protect(func() string { return ws.exec(line) })
		lines = append(lines, line+" => "+res)
		if r.Intn(3) == 0 {
			runtime.Gosched()
		}
	}
	end := "commit"
	if r.Intn(10) == 0 {
		end = "rollback"
	}
	res = protect(func() string { return ws.exec(end) })
	lines = append(lines, end+" => "+res)
	ws.inTx = false
	ws.tx = nil
	var seq int64
	if v, ok := c.seqOf.Load(id); ok {
		seq = v.(int64)
	}
	c.recsMu.Lock()
	c.recs = append(c.recs, txRecord{seq: seq, lines: lines})
	c.recsMu.Unlock()
}

func goid() int64 {
	var buf [64]byte
	n := runtime.Stack(buf[:], false)
	// "goroutine 123 [running]:"
	f := strings.Fields(string(buf[:n]))
	if len(f) >= 2 {
		id, _ := strconv.ParseInt(f[1], 10, 64)
		return id
	}
	return 0
}

var lastSeqOfGoroutine sync.Map // goroutine id -> last sequence number drawn on it

// oneBackup calls DB.Backup into a fresh directory, then opens the copy and observes it. The position of
// the backup's read transaction in the serial order is the sequence number drawn on this goroutine.
func (c *concDB) oneBackup(i int) {
	dst := fmt.Sprintf("%s/backup-%d", c.base.scratch, i)
	g := goid()
	lastSeqOfGoroutine.Delete(g)
	if err := c.base.db.Backup(dst); err != nil {
		return
	}
	v, ok := lastSeqOfGoroutine.Load(g)
	if !ok {
		return
	}
	seq := v.(int64)
	opt := c.base.opt
	opt.Dir = dst
	res := "open=err"
	func() {
		defer func() {
			if r := recover(); r != nil {
				res = "open=panic"
			}
		}()
		db2, err := nutsdb.Open(opt)
		if err != nil {
			return
		}
		tmp := &dbSuite{db: db2, dir: dst, opt: opt}
		res = "open=ok obs=" + strings.TrimPrefix(tmp.observe(), "ok ")
		db2.Close()
	}()
	c.recsMu.Lock()
	c.recs = append(c.recs, txRecord{seq: seq, lines: []string{fmt.Sprintf("backupobs %d %d => ok %s", i, time.Now().Unix(), res)}})
	c.recsMu.Unlock()
}
