//go:build verif

package main

import (
	"fmt"
	"hash/crc32"
	"math/rand"
	"os"
	"strconv"
	"strings"

	"github.com/xujiajun/nutsdb"
)

// codec: the three record codecs (data entry, bucket meta, root index) and the readers that decode
// them from files, on generated records, on every single-bit corruption of them and on truncations.
//
//	crc <data>                                                       => <crc32 as decimal>
//	enc-entry <b> <k> <v> <ts> <ttl> <flag> <status> <ds> <txid>     => <hex of Encode()>
//	rt-entry  <rw> <pre> <post> <fields…>                            => result of DataFile.ReadAt(len(pre)) on pre++enc++post
//	cor-entry <rw> <pre> <post> <pos> <mask> <fields…>               => same with byte <pos> of the encoding xor <mask>
//	cut-entry <rw> <pre> <n> <fields…>                               => file = pre ++ first n bytes of the encoding
//	enc-meta <start> <end> / rt-meta <post> … / cor-meta <post> <pos> <mask> … / cut-meta <n> …
//	enc-root <fid> <off> <start> <end> / rt-root <pre> <post> … / cor-root <pre> <post> <pos> <mask> … / cut-root <pre> <n> …
//
// Results: `ok <canonical fields>`, `ok nil` (end-of-data marker), `err`.
type codecSuite struct {
	dir   string
	queue []string
	n     int
}

func init() { suites["codec"] = func() suite { return &codecSuite{} } }

func (s *codecSuite) newCase(id int) {
	base := "/dev/shm"
	if _, err := os.Stat(base); err != nil {
		base = os.TempDir()
	}
	d, err := os.MkdirTemp(base, "nutsverif-codec-")
	if err != nil {
		panic(err)
	}
	s.dir = d
	s.queue = nil
	s.n = 0
}

func (s *codecSuite) endCase() { os.RemoveAll(s.dir) }

func pickU(r *rand.Rand, bits uint) uint64 {
	max := uint64(1)<<bits - 1
	if bits == 64 {
		max = ^uint64(0)
	}
	switch r.Intn(8) {
	case 0:
		return 0
	case 1:
		return max
	case 2:
		return 1
	case 3:
		return max - 1
	case 4:
		return (max >> 1) + 1
	case 5:
		return uint64(r.Intn(16))
	default:
		return r.Uint64() & max
	}
}

func randBytes(r *rand.Rand, maxLen int) []byte {
	n := 0
	switch r.Intn(6) {
	case 0:
		n = 0
	case 1:
		n = 1
	default:
		n = r.Intn(maxLen + 1)
	}
	b := make([]byte, n)
	for i := range b {
		switch r.Intn(5) {
		case 0:
			b[i] = 0
		case 1:
			b[i] = 0xff
		case 2:
			b[i] = '|'
		default:
			b[i] = byte(r.Intn(256))
		}
	}
	return b
}

func (s *codecSuite) gen(r *rand.Rand, step int) string {
	if len(s.queue) > 0 {
		l := s.queue[0]
		s.queue = s.queue[1:]
		return l
	}
	s.n++
	rw := r.Intn(2)
	pre := randBytes(r, 30)
	post := randBytes(r, 30)
	switch r.Intn(10) {
	case 0:
		return "crc " + hx(randBytes(r, 64))
	case 1, 2:
		// bucket meta
		st, en := randBytes(r, 12), randBytes(r, 12)
		f := fmt.Sprintf("%s %s", hx(st), hx(en))
		size := 12 + len(st) + len(en)
		s.queue = append(s.queue, "rt-meta "+hx(post)+" "+f)
		for _, pos := range corruptionPositions(r, size, 12) {
			s.queue = append(s.queue, fmt.Sprintf("cor-meta %s %d %d %s", hx(post), pos/8, 1<<(pos%8), f))
		}
		s.queue = append(s.queue, fmt.Sprintf("cor-meta %s %d %d %s", hx(post), r.Intn(size), 1+r.Intn(255), f))
		for _, n := range cutLengths(r, size) {
			s.queue = append(s.queue, fmt.Sprintf("cut-meta %d %s", n, f))
		}
		return "enc-meta " + f
	case 3, 4:
		st, en := randBytes(r, 12), randBytes(r, 12)
		f := fmt.Sprintf("%d %d %s %s", pickU(r, 64), pickU(r, 64), hx(st), hx(en))
		size := 28 + len(st) + len(en)
		s.queue = append(s.queue, "rt-root "+hx(pre)+" "+hx(post)+" "+f)
		for _, pos := range corruptionPositions(r, size, 28) {
			s.queue = append(s.queue, fmt.Sprintf("cor-root %s %s %d %d %s", hx(pre), hx(post), pos/8, 1<<(pos%8), f))
		}
		s.queue = append(s.queue, fmt.Sprintf("cor-root %s %s %d %d %s", hx(pre), hx(post), r.Intn(size), 1+r.Intn(255), f))
		for _, n := range cutLengths(r, size) {
			s.queue = append(s.queue, fmt.Sprintf("cut-root %s %d %s", hx(pre), n, f))
		}
		return "enc-root " + f
	default:
		b, k, v := randBytes(r, 10), randBytes(r, 14), randBytes(r, 20)
		flag := pickU(r, 16)
		if r.Intn(3) > 0 {
			flag = uint64(r.Intn(14))
		}
		f := fmt.Sprintf("%s %s %s %d %d %d %d %d %d", hx(b), hx(k), hx(v), pickU(r, 64), pickU(r, 32), flag, pickU(r, 16)%3, pickU(r, 16)%5, pickU(r, 64))
		size := 42 + len(b) + len(k) + len(v)
		s.queue = append(s.queue, fmt.Sprintf("rt-entry %d %s %s %s", rw, hx(pre), hx(post), f))
		s.queue = append(s.queue, fmt.Sprintf("rt-entry %d %s %s %s", 1-rw, hx(pre), "-", f))
		for _, pos := range corruptionPositions(r, size, 42) {
			m := r.Intn(2)
			// a flip of a high bit of a size field makes the reader allocate and checksum up to 4 GiB under MMap
			// (short copies are zero-padded); those flips are exercised through FileIO only
			if by := pos / 8; by == 14 || by == 15 || by == 18 || by == 19 || by == 28 || by == 29 {
				m = 0
			}
			s.queue = append(s.queue, fmt.Sprintf("cor-entry %d %s %s %d %d %s", m, hx(pre), hx(post), pos/8, 1<<(pos%8), f))
		}
		s.queue = append(s.queue, fmt.Sprintf("cor-entry %d %s %s %d %d %s", 0, hx(pre), hx(post), r.Intn(size), 1+r.Intn(255), f))
		for _, n := range cutLengths(r, size) {
			s.queue = append(s.queue, fmt.Sprintf("cut-entry %d %s %d %s", r.Intn(2), hx(pre), n, f))
		}
		return "enc-entry " + f
	}
}

// corruptionPositions: bit positions to flip. VERIF_CODEC_ALLBITS=1 (thorough tier): every bit of the
// record; otherwise every bit of the header's size fields and crc plus a sample of the others.
func corruptionPositions(r *rand.Rand, size, hdr int) []int {
	var out []int
	all := os.Getenv("VERIF_CODEC_ALLBITS") != ""
	for p := 0; p < size*8; p++ {
		if all || p < hdr*8 && r.Intn(4) == 0 || r.Intn(24) == 0 {
			// a flipped high bit of a size field makes the Go reader allocate up to 4 GiB (≈ 0.1 s each):
			// sampled more thinly unless every bit is asked for
			if hi := hdr == 42 && (p/8 == 14 || p/8 == 15 || p/8 == 18 || p/8 == 19 || p/8 == 28 || p/8 == 29) ||
				hdr == 12 && (p/8 == 6 || p/8 == 7 || p/8 == 10 || p/8 == 11) ||
				hdr == 28 && (p/8 == 22 || p/8 == 23 || p/8 == 26 || p/8 == 27); hi && !all && r.Intn(8) != 0 {
				continue
			}
			out = append(out, p)
		}
	}
	return out
}

func cutLengths(r *rand.Rand, size int) []int {
	var out []int
	all := os.Getenv("VERIF_CODEC_ALLBITS") != ""
	for n := 1; n < size; n++ {
		if all || r.Intn(8) == 0 || n == size-1 {
			out = append(out, n)
		}
	}
	return out
}

func u64(s string) uint64 {
	n, err := strconv.ParseUint(s, 10, 64)
	if err != nil {
		panic("bad uint " + s)
	}
	return n
}

func codecEntryOf(f []string) *nutsdb.Entry {
	return nutsdb.VerifNewEntry(unhx(f[0]), unhx(f[1]), unhx(f[2]), u64(f[3]), uint32(u64(f[4])), uint16(u64(f[5])), uint16(u64(f[6])), uint16(u64(f[7])), u64(f[8]))
}

func showCodecEntry(e *nutsdb.Entry) string {
	b, k, v, ts, ttl, flag, status, ds, txid, _ := e.VerifFields()
	return fmt.Sprintf("ok %s %s %s %d %d %d %d %d %d", hx(b), hx(k), hx(v), ts, ttl, flag, status, ds, txid)
}

func (s *codecSuite) file(content []byte) string {
	p := fmt.Sprintf("%s/f%d", s.dir, s.n)
	s.n++
	if err := os.WriteFile(p, content, 0644); err != nil {
		panic(err)
	}
	return p
}

func (s *codecSuite) readEntry(rw int, content []byte, off int) string {
	if len(content) == 0 {
		return "skip"
	}
	p := s.file(content)
	defer os.Remove(p)
	df, err := nutsdb.NewDataFile(p, int64(len(content)), nutsdb.RWMode(rw))
	if err != nil {
		return "err-open"
	}
	defer df.Close()
	e, err := df.ReadAt(off)
	if err != nil {
		return "err"
	}
	if e == nil {
		return "ok nil"
	}
	return showCodecEntry(e)
}

func (s *codecSuite) readMeta(content []byte) string {
	p := s.file(content)
	defer os.Remove(p)
	bm, err := nutsdb.ReadBucketMeta(p)
	if err != nil {
		return "err"
	}
	st, en, _ := bm.VerifFields()
	return fmt.Sprintf("ok %s %s", hx(st), hx(en))
}

func (s *codecSuite) readRoot(content []byte, off int) string {
	p := s.file(content)
	defer os.Remove(p)
	fd, err := os.OpenFile(p, os.O_RDWR, 0644)
	if err != nil {
		return "err-open"
	}
	defer fd.Close()
	bri, err := nutsdb.ReadBPTreeRootIdxAt(fd, int64(off))
	if err != nil {
		return "err"
	}
	if bri == nil {
		return "ok nil"
	}
	fid, ro, st, en, _ := bri.VerifFields()
	return fmt.Sprintf("ok %d %d %s %s", fid, ro, hx(st), hx(en))
}

func cat(parts ...[]byte) []byte {
	var out []byte
	for _, p := range parts {
		out = append(out, p...)
	}
	return out
}

func flip(enc []byte, pos, mask int) []byte {
	c := append([]byte{}, enc...)
	if pos < len(c) {
		c[pos] ^= byte(mask)
	}
	return c
}

func (s *codecSuite) exec(line string) string {
	f := strings.Fields(line)
	switch f[0] {
	case "crc":
		return fmt.Sprintf("%d", crc32.ChecksumIEEE(unhx(f[1])))
	case "enc-entry":
		return hx(codecEntryOf(f[1:]).Encode())
	case "rt-entry":
		pre, post := unhx(f[2]), unhx(f[3])
		return s.readEntry(atoi(f[1]), cat(pre, codecEntryOf(f[4:]).Encode(), post), len(pre))
	case "cor-entry":
		pre, post := unhx(f[2]), unhx(f[3])
		return s.readEntry(atoi(f[1]), cat(pre, flip(codecEntryOf(f[6:]).Encode(), atoi(f[4]), atoi(f[5])), post), len(pre))
	case "cut-entry":
		pre := unhx(f[2])
		return s.readEntry(atoi(f[1]), cat(pre, codecEntryOf(f[4:]).Encode()[:atoi(f[3])]), len(pre))
	case "enc-meta":
		return hx(nutsdb.VerifNewBucketMeta(unhx(f[1]), unhx(f[2])).Encode())
	case "rt-meta":
		return s.readMeta(cat(nutsdb.VerifNewBucketMeta(unhx(f[2]), unhx(f[3])).Encode(), unhx(f[1])))
	case "cor-meta":
		return s.readMeta(cat(flip(nutsdb.VerifNewBucketMeta(unhx(f[4]), unhx(f[5])).Encode(), atoi(f[2]), atoi(f[3])), unhx(f[1])))
	case "cut-meta":
		return s.readMeta(nutsdb.VerifNewBucketMeta(unhx(f[2]), unhx(f[3])).Encode()[:atoi(f[1])])
	case "enc-root":
		return hx(nutsdb.VerifNewRootIdx(u64(f[1]), u64(f[2]), unhx(f[3]), unhx(f[4])).Encode())
	case "rt-root":
		pre, post := unhx(f[1]), unhx(f[2])
		return s.readRoot(cat(pre, nutsdb.VerifNewRootIdx(u64(f[3]), u64(f[4]), unhx(f[5]), unhx(f[6])).Encode(), post), len(pre))
	case "cor-root":
		pre, post := unhx(f[1]), unhx(f[2])
		return s.readRoot(cat(pre, flip(nutsdb.VerifNewRootIdx(u64(f[5]), u64(f[6]), unhx(f[7]), unhx(f[8])).Encode(), atoi(f[3]), atoi(f[4])), post), len(pre))
	case "cut-root":
		pre := unhx(f[1])
		return s.readRoot(cat(pre, nutsdb.VerifNewRootIdx(u64(f[3]), u64(f[4]), unhx(f[5]), unhx(f[6])).Encode()[:atoi(f[2])]), len(pre))
	}
	return "bad-op"
}
