//go:build verif

package main

import (
	"fmt"
	"math/rand"
	"strings"

	"github.com/xujiajun/nutsdb/ds/zset"
)

// zset-ds: the exported ds/zset type, directly. The skiplist is randomized: the level the implementation
// draws for a new node is reported with the result of `put` and fed to the model; after every mutation the
// whole structure (levels, spans, forward and backward pointers, tail, length) is dumped and compared.
type zsetDS struct {
	z        *zset.SortedSet
	needDump bool
	keys     [][]byte
}

func init() { suites["zset-ds"] = func() suite { return &zsetDS{} } }

func (s *zsetDS) newCase(id int) {
	s.z = zset.New()
	s.needDump = false
	s.keys = nil
	s.keys = append(s.keys, keyAlphabet...)
	s.keys = append(s.keys, []byte{})
	for i := 0; i < 28; i++ {
		s.keys = append(s.keys, []byte(fmt.Sprintf("k%02d", i)))
	}
}
func (s *zsetDS) endCase() {}

func (s *zsetDS) gen(r *rand.Rand, step int) string {
	if s.needDump {
		s.needDump = false
		return "dump"
	}
	line := s.gen1(r)
	switch strings.Fields(line)[0] {
	case "put", "rem", "popmin", "popmax":
		s.needDump = true
	case "rankrange":
		if strings.HasSuffix(line, " 1") {
			s.needDump = true
		}
	}
	return line
}

func (s *zsetDS) gen1(r *rand.Rand) string {
	k := pick(r, s.keys)
	n := s.z.Size()
	sc := r.Intn(9) - 4 // quarter units: many ties
	if r.Intn(6) == 0 {
		sc = r.Intn(41) - 20
	}
	switch x := r.Intn(100); {
	case x < 40:
		return fmt.Sprintf("put %s %d %s", hx(k), sc, hx(pickVal(r)))
	case x < 48:
		return "rem " + hx(k)
	case x < 50:
		return "popmin"
	case x < 52:
		return "popmax"
	case x < 55:
		return fmt.Sprintf("rankrange %d %d 1", boundaryInt(r, n), boundaryInt(r, n))
	case x < 66:
		return fmt.Sprintf("rankrange %d %d 0", boundaryInt(r, n), boundaryInt(r, n))
	case x < 80:
		lim := r.Intn(5) - 1
		if r.Intn(3) == 0 {
			lim = 0
		}
		return fmt.Sprintf("scorerange %d %d %d %d %d", r.Intn(15)-7, r.Intn(15)-7, lim, r.Intn(2), r.Intn(2))
	case x < 86:
		return "rank " + hx(k)
	case x < 90:
		return "revrank " + hx(k)
	case x < 93:
		return "get " + hx(k)
	case x < 95:
		return "size"
	case x < 97:
		return "peekmin"
	case x < 99:
		return "peekmax"
	default:
		return "dump"
	}
}

func zsNode(n *zset.SortedSetNode) string {
	if n == nil {
		return "nil"
	}
	return fmt.Sprintf("%s:%d:%s", hx([]byte(n.Key())), int64(float64(n.Score())*4), hx(n.Value))
}

func zsNodes(ns []*zset.SortedSetNode) string {
	var p []string
	for _, n := range ns {
		p = append(p, zsNode(n))
	}
	return "[" + strings.Join(p, ",") + "]"
}

func (s *zsetDS) exec(line string) string {
	f := strings.Fields(line)
	z := s.z
	switch f[0] {
	case "put":
		key := string(unhx(f[1]))
		before := z.GetByKey(key)
		if err := z.Put(key, zset.SCORE(float64(atoi(f[2]))/4), unhx(f[3])); err != nil {
			return "err"
		}
		after := z.GetByKey(key)
		h := 0
		if after != before && after != nil {
			nodes, _, _, _, _, _ := z.VerifDump()
			for _, n := range nodes[1:] {
				if n.Key == key {
					h = n.Height
				}
			}
		}
		return fmt.Sprintf("ok h=%d", h)
	case "rem":
		return zsNode(z.Remove(string(unhx(f[1]))))
	case "popmin":
		return zsNode(z.PopMin())
	case "popmax":
		return zsNode(z.PopMax())
	case "peekmin":
		return zsNode(z.PeekMin())
	case "peekmax":
		return zsNode(z.PeekMax())
	case "rankrange":
		return zsNodes(z.GetByRankRange(atoi(f[1]), atoi(f[2]), f[3] == "1"))
	case "scorerange":
		var opt *zset.GetByScoreRangeOptions
		lim := atoi(f[3])
		if !(lim == 0 && f[4] == "0" && f[5] == "0") {
			opt = &zset.GetByScoreRangeOptions{Limit: lim, ExcludeStart: f[4] == "1", ExcludeEnd: f[5] == "1"}
		}
		return zsNodes(z.GetByScoreRange(zset.SCORE(float64(atoi(f[1]))/4), zset.SCORE(float64(atoi(f[2]))/4), opt))
	case "rank":
		return fmt.Sprint(z.FindRank(string(unhx(f[1]))))
	case "revrank":
		return fmt.Sprint(z.FindRevRank(string(unhx(f[1]))))
	case "get":
		return zsNode(z.GetByKey(string(unhx(f[1]))))
	case "size":
		return fmt.Sprint(z.Size())
	case "dump":
		nodes, level, length, tailKey, tailNil, dictLen := z.VerifDump()
		tail := "nil"
		if !tailNil {
			tail = hx([]byte(tailKey))
		}
		var body, members []string
		for p, n := range nodes {
			h := n.Height
			if p == 0 {
				h = level
			}
			var lv []string
			for i := 0; i < h; i++ {
				fw := "nil"
				if !n.FwdNil[i] {
					fw = hx([]byte(n.FwdKeys[i]))
				}
				lv = append(lv, fmt.Sprintf("%d>%s", n.Spans[i], fw))
			}
			back := "nil"
			if !n.BackNil {
				back = hx([]byte(n.Backward))
			}
			body = append(body, fmt.Sprintf("%s:%d:%s:[%s]<%s", hx([]byte(n.Key)), int64(float64(n.Score)*4), hx(n.Value), strings.Join(lv, ","), back))
			if p > 0 {
				members = append(members, fmt.Sprintf("%s:%d:%s", hx([]byte(n.Key)), int64(float64(n.Score)*4), hx(n.Value)))
			}
		}
		if dictLen != len(nodes)-1 {
			return fmt.Sprintf("dict=%d nodes=%d", dictLen, len(nodes)-1)
		}
		return fmt.Sprintf("level=%d len=%d tail=%s ", level, length, tail) + strings.Join(body, " ") + " | [" + strings.Join(members, ",") + "]"
	}
	return "bad-op"
}
