#!/bin/sh
# Offline setup: build the Lean development, the extractor and the harness from files on disk.
set -e
cd "$(dirname "$0")"
export GOFLAGS=-mod=mod GOPROXY=off GOSUMDB=off GOTOOLCHAIN=local
mkdir -p .build evidence replays
cp -f /repo/go.sum tools/go.sum
(cd tools && go build -o ../.build/extract ./extract)
./.build/extract -repo /repo -out lean/NutsGen -json .build/extract.json
(cd lean && lake build 2>&1 | grep -v '^warning\|linter\|Hint\|\[apply\]\|^$\|^Note' | tail -5)
(cd tools && CGO_ENABLED=0 go build -tags verif -o ../.build/harness ./harness)
echo setup done
